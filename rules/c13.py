"""C13 — Every child-schema instance is a valid parent-schema instance.

Decided: R1 the override check is wired into plugin loading and covers the whole class chain (all bases, nested
schemas); R2 the extra-field policy cannot be loosened by children; R3 static re-check of the schemas shipped in the
repo (the load-time check cannot run in this sandbox): every undeclared field override is compared with the inherited
annotation by a structural subtype relation on annotation ASTs; R4 the wrapper around the third-party subtype test can
only be stricter than it.  Not decided: soundness of runtype's is_subtype and acceptance over all values.
"""
from __future__ import annotations

import ast
from typing import Dict, FrozenSet, List, Optional, Tuple

from mdsa.astutil import call_attr, local_calls, norm
from mdsa.cfg import walk_local
from mdsa.loader import AnalysisError, dotted

from mdsa import match as MM

from .sem import F
from .common import Ctx, local_defs, node_of

C = "schema.core"
MS = f"{C}.MetadataSchema"
EXPLANATION = (
    "R1 call-graph/MUST: PGSchema.check_plugin calls check_types; check_types recurses over *every* MetadataSchema base of the class "
    "(not only registered plugins) and every nested field schema before check_allowed_types and check_overrides; check_overrides raises "
    "TypeError for each undeclared override whose type is not a subtype, ValueError for declared-but-unreal overrides; _load_plugin runs "
    "check_plugin before init_plugin. R2: SchemaMagic.__new__ raises when the parent forbids extras and the child does not or adds fields. "
    "R3: for each MetadataSchema subclass in src/, each public annotation that re-declares an ancestor's field and is not listed in "
    "@override(...) is compared with the ancestor's annotation after alias expansion (Optional/Union/List/Set/Annotated/Literal, repo "
    "class hierarchy incl. phantom types); definite non-subtypes are violations, unclassifiable pairs are listed as unknown. "
    "R4: is_subtype returns only False, the third-party verdict, or a recursive call — never a literal True."
)
NOT_DECIDED = "soundness of runtype.is_subtype over all type pairs; that child instances serialise to something every ancestor accepts (runtime)"


def run(P, rep, tier):
    rep.explanation = EXPLANATION
    rep.not_decided = NOT_DECIDED
    rep.assumptions = ["runtype.is_subtype is a sound structural subtype test for the documented grammar", "pydantic v1 validates field values against the annotated types"]
    ctx = Ctx(P)
    rep.attempt(r1_wiring, P, rep, ctx)
    rep.attempt(r2_extras, P, rep, ctx)
    rep.attempt(r6_inspector_precedence, P, rep, ctx)
    rep.attempt(r3_shipped_schemas, P, rep, ctx)
    rep.attempt(r4_wrapper_stricter, P, rep, ctx)
    rep.attempt(r5_const_specialisation, P, rep, ctx)
    rep.attempt(r7_make_mandatory, P, rep, ctx)
    rep.attempt(r8_atomic_types_source, P, rep, ctx)
    rep.attempt(r9_config_whitelist, P, rep, ctx)
    rep.attempt(r10_type_hint_source, P, rep, ctx)
    # constants declared by a parent stay forced in every descendant (constant rules of C12.R4)
    from . import c12 as _c12

    rep.attempt(_c12.r4_constants, P, rep, ctx)
    rep.floor("C13.R1", 8)
    rep.floor("C13.R2", 2)
    rep.floor("C13.R3", 4)
    rep.floor("C13.R4", 2)
    # refinement against the pinned tree for every function the rules above looked at (rules/pinned.py)
    import os as _os

    if not _os.environ.get("MDSA_PINNED_GEN"):
        from .pinned import refine

        refine(P, rep, ctx, "C13")


def r1_wiring(P, rep, ctx):
    cp = P.func("schema.pg.PGSchema.check_plugin")
    cpf = F(ctx, cp)
    rep.check(bool(cpf.calls(f"check_types({cp.params[2]})", f"check_types({cp.params[2]}, ___)")), "C13.R1", cp.qual, "the schema plugin group checks field types of every loaded schema", cp.loc(), construct="check_plugin -> check_types", message="PGSchema.check_plugin does not call check_types(plugin)")
    lp = P.func("plugin.interface.PluginGroup._load_plugin")
    lf = F(ctx, lp)
    ck = lf.calls("self.check_plugin(___)")
    ini = lf.calls("self.init_plugin(___)")
    rep.check(bool(ck) and bool(ini) and lf.all_hit_before(ini, nodes=ck) and lf.hit_before(lf.g.exit, nodes=ck), "C13.R1", lp.qual, "every plugin is checked before it is initialised / handed out", lp.loc(), construct="check before init", message="_load_plugin can initialise a plugin without running check_plugin")
    el = P.func("plugin.interface.PluginGroup._ensure_is_loaded")
    ef = F(ctx, el)
    rep.check(bool(ef.calls("self._load_plugin(___)")), "C13.R1", el.qual, "loading an entry point runs _load_plugin", el.loc(), construct="_ensure_is_loaded", message="_ensure_is_loaded does not call _load_plugin")
    ct = P.func(f"{C}.check_types")
    f = F(ctx, ct)
    g = f.g
    sc = ct.params[0]
    loops = [n for n in g.nodes if n.kind == "for"]
    base_loop = [n for n in loops if f.x(n.stmt.iter) in (f"{sc}.__bases__", f"{sc}.__mro__[1:]", f"{sc}.mro()[1:]") and isinstance(n.stmt.target, ast.Name)]
    ok = bool(base_loop)
    if ok:
        L = base_loop[0].idx
        bv = base_loop[0].stmt.target.id
        bt = f.tests(f"issubclass({bv}, MetadataSchema)")
        rc = f.calls(f"check_types({bv}, recheck=recheck)")
        ok = bool(bt) and bool(rc) and f.hit_before(L, nodes=rc, edges=f.neg(bt), src_edge=(L, "iter"))
    rep.check(ok, "C13.R1", ct.qual, "check_types recurses into every MetadataSchema base of the class (registered or not)", ct.loc(), construct="base recursion of check_types",
              message="check_types does not recurse over all bases of the schema (schema.__bases__): an unregistered intermediate class with an incompatible override is never checked")
    nested_ok = False
    for n in loops:
        itx = f.x(n.stmt.iter)
        if ".schemas" in itx and f"{sc}.Fields" in itx:
            nested_ok = bool([c for i_, c, b in f.call_sites("check_types(__s, recheck=recheck)") if f"{sc}.Fields" in f.x_at(i_, b["__s"]) or ".schemas" in f.x_at(i_, b["__s"])])
    rep.check(nested_ok, "C13.R1", ct.qual, "check_types recurses into nested field schemas", ct.loc(), construct="nested recursion", message="check_types does not check nested schemas")
    ca = f.calls(f"check_allowed_types({sc})")
    co = f.calls(f"check_overrides({sc})")
    is_root = f.tests(f"{sc} is MetadataSchema")
    checked = f.tests(f"{sc}.__types_checked__")
    recheck = f.tests("recheck")
    # skipped only for the root class, or when already checked and no recheck was requested
    ok = bool(ca) and bool(co) and bool(is_root) and bool(checked) and bool(recheck)
    ok = ok and f.hit_before(g.exit, nodes=ca, edges=is_root + checked) and f.hit_before(g.exit, nodes=co, edges=is_root + checked) and f.hit_before(g.exit, nodes=ca, edges=is_root + f.neg(recheck)) and f.hit_before(g.exit, nodes=co, edges=is_root + f.neg(recheck))
    rep.check(ok, "C13.R1", ct.qual, "unless already checked, both the allowed-type and the override check run", ct.loc(), construct="checks in check_types", message="check_types can return for an unchecked schema without running check_overrides / check_allowed_types")
    other_tests = [norm(t.exprs[0]) for t in g.nodes if t.kind == "test" and t.idx not in f.test_nodes(is_root + checked + recheck) and not g.reach([t.idx]) & {n.idx for n in loops} - set() and f.reaches([(t.idx, "T"), (t.idx, "F")], [g.exit]) and not f.hit_before(t.idx, nodes=[n.idx for n in loops])]
    skip_extra = [t for t in other_tests if t]
    rep.check(not skip_extra, "C13.R1", ct.qual, "only MetadataSchema itself and already checked classes are skipped", ct.loc(), construct="skip condition", message=f"check_types skips schemas under {skip_extra}")
    ov = P.func(f"{C}.check_overrides")
    o = F(ctx, ov)
    g = o.g
    sc = ov.params[0]
    def ctext(e):
        """text of e with locals expanded and collection wrappers (set(..), sorted(..), .keys()) removed"""
        return norm(MM.canon_collections(o.xe(e) if not isinstance(e, str) else MM.pat(e)))

    def ctests(*wanted):
        ws = {ctext(w) for w in wanted}
        out = []
        for t in g.nodes:
            if t.kind == "test" and norm(MM.canon_collections(o.xe_at(t.idx, t.exprs[0]))) in ws:
                out.append((t.idx, "T"))
        return out

    loops = [n for n in g.nodes if n.kind == "for" and ctext(n.stmt.iter) == f"detect_field_overrides({sc}) - {sc}.__overrides__" and isinstance(n.stmt.target, ast.Name)]
    ok = len(loops) == 1
    if ok:
        L = loops[0].idx
        fn = loops[0].stmt.target.id
        HN, HB = f"cast(Any, {sc}._typehints)[{fn}]", f"cast(Any, {sc}._base_typehints)[{fn}]"
        sub = [e for e in o.tests("is_subtype(__a, __b)")]
        good = []
        for t, lab in sub:
            m = MM.match("is_subtype(__a, __b)", g.nodes[t].exprs[0])
            a_, b_ = o.x_at(t, m["__a"]), o.x_at(t, m["__b"])
            pair = _unpack_pair(o, m["__a"], m["__b"], fn, sc, at=t)
            if (a_, b_) == (HN, HB) or pair:
                good.append((t, lab))
        bad = o.neg(good)
        raises_te = any(isinstance(g.nodes[x].stmt, ast.Raise) and "TypeError" in o.x_at(x, g.nodes[x].stmt.exc) for x in g.reach(o.heads(bad)) | set(o.heads(bad))) if bad else False
        # a field that passes the test does not end the examination of the others: from the passing edge the normal exit is
        # only reached through the loop head again
        carries_on = all(o.hit_before(g.exit, nodes=[L], src_edge=e) for e in good)
        ok = bool(good) and o.refuses(bad) and raises_te and o.hit_before(L, nodes=o.test_nodes(good), src_edge=(L, "iter")) and o.hit_before(g.exit, nodes=[L]) and carries_on
    rep.check(ok, "C13.R1", ov.qual, "an undeclared override that is not a subtype raises TypeError", ov.loc(), construct="override refusal", message="check_overrides does not raise TypeError for an undeclared override whose type is not a subtype of the inherited one")
    rep.check(len(loops) == 1, "C13.R1", ov.qual,
              "every actual, undeclared override is compared with the inherited hint", ov.loc(), construct="override iteration", message="check_overrides does not iterate over all actual overrides that are not declared with @override")
    un1 = ctests(f"{sc}.__overrides__ - set(cast(Any, {sc}._base_typehints).keys())")
    un2 = ctests(f"{sc}.__overrides__ - detect_field_overrides({sc})")
    rep.check(o.refuses(un1) and o.refuses(un2) and o.hit_before(g.exit, nodes=o.test_nodes(un1)) and o.hit_before(g.exit, nodes=o.test_nodes(un2)), "C13.R1", ov.qual, "declaring an override for a field the parents do not have raises", ov.loc(), construct="unreal override", message="a declared override without parent field is accepted")
    do = P.func(f"{C}.detect_field_overrides")
    d = F(ctx, do)
    sc = do.params[0]
    rets = [v for _, v in d.returns() if v is not None]
    okd = len(rets) == 1
    if okd:
        sb = d.set_build(rets[0])
        BH = f"cast(Any, {sc}._base_typehints)"
        okd = sb is not None and sb["src"] == f"get_annotations({sc}).items()" and MM.equivalent(sb["kept"], f"is_pub_instance_field({sc}, V0, V1) and V0 in {BH}")
    rep.check(okd, "C13.R1", do.qual, "overrides = own annotations that also occur in the bases' hints", do.loc(), construct="detect_field_overrides", message="detect_field_overrides changed shape")


def _unpack_pair(o, a, b, fn, sc, at=None) -> bool:
    """`hint, parent_hint = (hints[f], base_hints[f])` feeding is_subtype(hint, parent_hint) -- and nothing else
    (re)defines the two names before the test"""
    if not (isinstance(a, ast.Name) and isinstance(b, ast.Name)):
        return False
    if at is not None:
        rd = o._rd().get(at, {})
        if any(len(rd.get(nm.id, ())) != 1 for nm in (a, b)):
            return False  # the hint reaching the subtype test was replaced / adjusted on some path
    for st in walk_local(o.node):
        if isinstance(st, ast.Assign) and len(st.targets) == 1 and isinstance(st.targets[0], ast.Tuple) and [norm(e) for e in st.targets[0].elts] == [a.id, b.id] and isinstance(st.value, ast.Tuple) and len(st.value.elts) == 2:
            return (o.x(st.value.elts[0]), o.x(st.value.elts[1])) == (f"cast(Any, {sc}._typehints)[{fn}]", f"cast(Any, {sc}._base_typehints)[{fn}]")
    return False


def r6_inspector_precedence(P, rep, ctx):
    """check_types recurses through schema.Fields[f].schemas: the per-field table must give the class's *own* (re)declared
    field precedence over the inherited one, otherwise the nested schema that is checked is the parent's."""
    fi = P.func("schema.inspect.make_field_inspector")
    f = F(ctx, fi)
    model, prop = fi.params[0], fi.params[1]
    OWN = None
    for n in f.g.nodes:
        if n.kind == "stmt" and isinstance(n.stmt, (ast.Assign, ast.AnnAssign)) and isinstance(n.stmt.value, ast.DictComp):
            dc = n.stmt.value
            if isinstance(dc.value, ast.Call) and any(norm(a) == model for a in dc.value.args) and "get_annotations" in f.x_at(n.idx, dc.generators[0].iter):
                t = n.stmt.targets[0] if isinstance(n.stmt, ast.Assign) else n.stmt.target
                OWN = norm(t)
    if OWN is None:
        raise AnalysisError("C13.R6: the table of the model's own field inspectors not found in make_field_inspector")
    lifts = f.call_sites("lift_dict(__n, __m, ___)")
    ok = bool(lifts)
    why = ""
    for i, c, b in lifts:
        m = b["__m"]
        if isinstance(m, ast.Name):
            ds_ = [v for k, v in local_defs(fi).get(m.id, []) if v is not None]
            if len(ds_) == 1 and isinstance(ds_[0], ast.Call):
                m = ds_[0]
        cm = MM.match("ChainMap(*__l)", m)
        if cm is not None:
            lst = cm["__l"]
            if isinstance(lst, ast.Name):
                ds_ = [v for k, v in local_defs(fi).get(lst.id, []) if v is not None]
                lst = ds_[0] if len(ds_) == 1 else lst
            first = lst.left.elts[0] if isinstance(lst, ast.BinOp) and isinstance(lst.left, ast.List) and lst.left.elts else lst.elts[0] if isinstance(lst, ast.List) and lst.elts else None
            if first is None or norm(first) != OWN:
                ok, why = False, f"ChainMap over {norm(lst)[:80]} does not start with the model's own table"
        elif MM.match("ChainMap(__a, ___)", m) is not None:
            if norm(MM.match("ChainMap(__a, ___)", m)["__a"]) != OWN:
                ok, why = False, "ChainMap does not start with the model's own table"
        elif isinstance(b["__m"], ast.Name):
            # a flat dict: the own table must be merged in last (or the parents only fill missing keys)
            tv = b["__m"].id
            ups = [(j, c2) for j, c2, b2 in f.call_sites(f"{tv}.update(__d)")]
            own_last = [j for j, c2 in ups if norm(c2.args[0]) == OWN]
            others = [j for j, c2 in ups if norm(c2.args[0]) != OWN]
            if not own_last or any(o_ in f.g.reach([ol]) for ol in own_last for o_ in others):
                ok, why = False, f"flat table `{tv}` is filled so that an inherited entry overwrites the model's own"
        else:
            ok, why = False, f"lookup table {norm(m)[:60]} not recognised"
    rep.check(ok, "C13.R6", fi.qual, "a field (re)declared by the class shadows the inherited field in the class's field table", fi.loc(), construct="own fields first",
              message=f"make_field_inspector builds the field table so that the parent's entry wins for a re-annotated field ({why}): check_types then checks the parent's nested schema instead of the child's, and an invalid nested override goes unnoticed")


def r2_extras(P, rep, ctx):
    fi = P.func(f"{C}.SchemaMagic.__new__")
    f = F(ctx, fi)
    g = f.g
    rets = [i for i, v in f.returns()]
    created = None
    for n in g.nodes:
        if n.kind == "stmt" and isinstance(n.stmt, (ast.Assign, ast.AnnAssign)) and n.stmt.value is not None and MM.match("super().__new__(___)", n.stmt.value) is not None:
            t = n.stmt.targets[0] if isinstance(n.stmt, ast.Assign) else n.stmt.target
            created = f.x(n.stmt.value) if isinstance(t, ast.Name) and f.x(ast.Name(id=t.id, ctx=ast.Load())) != t.id else norm(t)
    if created is None:
        raise AnalysisError("C13.R2: class creation (super().__new__) not found in SchemaMagic.__new__")
    BASE = f"{fi.params[2]}[0]"
    forbids = [f"{BASE}.__config__.extra is Extra.forbid", f"{BASE}.__config__.extra == Extra.forbid"]
    r1 = f.refuses_when([forbids, [f"{created}.__config__.extra is not Extra.forbid", f"{created}.__config__.extra != Extra.forbid"]])
    NEW = f"set({created}.__fields__.keys()) - set({BASE}.__fields__.keys())"
    NEW2 = f"set({created}.__fields__) - set({BASE}.__fields__)"
    r2 = f.refuses_when([forbids, [NEW, NEW2]])
    rep.check(bool(r1) and bool(r2), "C13.R2", fi.qual, "if the parent forbids extra fields the child must forbid them too and may not add fields", fi.loc(), construct="extras policy", message="SchemaMagic.__new__ lets a child loosen the parent's extra=forbid policy (child accepts what the parent rejects)")
    nf = f.tests(NEW, NEW2)
    diffs = [norm(t.exprs[0]) for t in g.nodes if t.kind == "test" and "__fields__" in f.x_at(t.idx, t.exprs[0])] + [norm(t.exprs[0]) for t in g.nodes if t.kind == "test" and "new_flds" in norm(t.exprs[0])]
    rep.check(bool(nf), "C13.R2", fi.qual,
              "new fields = all pydantic fields of the child minus those of the parent (annotated or not)", fi.loc(), construct="new-field test",
              message=f"the new-field test is {diffs}: fields that pydantic infers without an annotation (e.g. `note = 'x'`) are not counted, so a child of an extra=forbid parent can add fields the parent rejects")
    rep.check(bool(f.tests(*forbids)), "C13.R2", fi.qual, "the policy is read from the base schema's config", fi.loc(), construct="parent_forbids_extras", message="parent_forbids_extras is not computed from baseschema.__config__.extra")


# ------------------------------------------------------------------------------------------- R3 type algebra
class T:
    pass


def _alias_target(P, m, name: str, depth=0):
    """(module, expr) an alias name is assigned to, following imports."""
    if depth > 10:
        return None
    if name in m.assigns:
        return m, m.assigns[name]
    ref = m.imports.get(name)
    if ref and ref.startswith("repo:"):
        q = P.canonical(ref)[5:]
        modname, _, nm = q.rpartition(".")
        mod = P.modules.get(modname)
        if mod is not None and nm in mod.assigns:
            return mod, mod.assigns[nm]
    return None


def ntype(P, m, e: ast.AST, env: Optional[Dict[str, tuple]] = None, depth=0):
    """-> ('union', frozenset) | ('list', t) | ('set', t) | ('cls', name) | ('lit', frozenset) | ('none',) | ('any',) | ('unk', text)"""
    env = env or {}
    if depth > 25:
        return ("unk", norm(e))
    if isinstance(e, ast.Constant):
        if e.value is None:
            return ("none",)
        if isinstance(e.value, str):
            try:
                return ntype(P, m, ast.parse(e.value, mode="eval").body, env, depth + 1)
            except SyntaxError:
                return ("unk", e.value)
    if isinstance(e, ast.BinOp) and isinstance(e.op, ast.BitOr):
        return mk_union([ntype(P, m, e.left, env, depth + 1), ntype(P, m, e.right, env, depth + 1)])
    if isinstance(e, ast.Subscript):
        head = dotted(e.value) or norm(e.value)
        h = head.split(".")[-1]
        args = list(e.slice.elts) if isinstance(e.slice, ast.Tuple) else [e.slice]
        if h == "Optional":
            return mk_union([ntype(P, m, args[0], env, depth + 1), ("none",)])
        if h == "Union":
            return mk_union([ntype(P, m, a, env, depth + 1) for a in args])
        if h in ("List", "list"):
            return ("list", ntype(P, m, args[0], env, depth + 1))
        if h in ("Set", "set", "FrozenSet"):
            return ("set", ntype(P, m, args[0], env, depth + 1))
        if h == "Annotated":
            return ntype(P, m, args[0], env, depth + 1)
        if h == "Literal":
            return ("lit", frozenset(norm(a) for a in args))
        if h in ("Type", "ClassVar", "Dict", "Tuple", "Callable"):
            return ("unk", norm(e))
        tgt = _alias_target(P, m, h)
        if tgt is not None:
            tm, te = tgt
            tvs = sorted({x.id for x in ast.walk(te) if isinstance(x, ast.Name) and _is_typevar(P, tm, x.id)})
            if tvs and len(tvs) == len(args):
                env2 = dict(env)
                for tv, a in zip(tvs, args):
                    env2[tv] = ntype(P, m, a, env, depth + 1)
                return ntype(P, tm, te, env2, depth + 1)
        return ("unk", norm(e))
    if isinstance(e, (ast.Name, ast.Attribute)):
        d = dotted(e)
        if d is None:
            return ("unk", norm(e))
        h = d.split(".")[-1]
        if h in env:
            return env[h]
        if h == "Any":
            return ("any",)
        if h in ("None", "NoneType"):
            return ("none",)
        ref = P.resolve_name(m, d)
        if ref and ref.startswith("repo:") and ref[5:] in P.classes:
            return ("cls", ref[5:])
        tgt = _alias_target(P, m, h) if "." not in d else None
        if tgt is not None:
            tm, te = tgt
            if isinstance(te, ast.Call):
                return ("unk", norm(e))
            return ntype(P, tm, te, env, depth + 1)
        if ref and ref.startswith("ext:"):
            return ("cls", ref)
        return ("cls", "ext:" + d)
    return ("unk", norm(e))


def _is_typevar(P, m, name):
    t = _alias_target(P, m, name)
    return t is not None and isinstance(t[1], ast.Call) and norm(t[1].func) == "TypeVar"


def mk_union(ts):
    out = set()
    for t in ts:
        if t[0] == "union":
            out |= set(t[1])
        else:
            out.add(t)
    if len(out) == 1:
        return next(iter(out))
    return ("union", frozenset(out))


EXT_SUB = {
    ("ext:pydantic.StrictInt", "ext:int"), ("ext:pydantic.StrictFloat", "ext:float"), ("ext:pydantic.StrictStr", "ext:str"), ("ext:pydantic.StrictBool", "ext:bool"),
    ("ext:pydantic.NonNegativeInt", "ext:int"), ("ext:pydantic.PositiveInt", "ext:int"), ("ext:pydantic.AnyHttpUrl", "ext:pydantic.AnyUrl"),
    ("ext:phantom.re.FullMatch", "ext:str"),
}


def subtype(P, a, b) -> Optional[bool]:
    """True / False / None (cannot classify)."""
    if a == b or b[0] == "any":
        return True
    if a[0] == "unk" or b[0] == "unk":
        return None
    if a[0] == "union":
        rs = [subtype(P, x, b) for x in a[1]]
        return False if False in rs else (None if None in rs else True)
    if b[0] == "union":
        rs = [subtype(P, a, y) for y in b[1]]
        return True if True in rs else (None if None in rs else False)
    if a[0] == "none" or b[0] == "none":
        return False
    if a[0] in ("list", "set") or b[0] in ("list", "set"):
        if a[0] != b[0]:
            return False
        return subtype(P, a[1], b[1])
    if a[0] == "lit" and b[0] == "lit":
        return a[1] <= b[1]
    if a[0] == "lit" or b[0] == "lit":
        return None
    if a[0] == "cls" and b[0] == "cls":
        if a[1] in P.classes:
            mro = P.mro(a[1])
            if b[1] in mro:
                return True
            if b[1].startswith("ext:"):
                if any((x, b[1]) in EXT_SUB or x == b[1] for x in mro if x.startswith("ext:")):
                    return True
                return None if any(x.startswith("ext:") for x in mro) else False
            return False  # two repo classes, unrelated
        if b[1] in P.classes:
            return False
        if (a[1], b[1]) in EXT_SUB:
            return True
        return None
    return None


def r3_shipped_schemas(P, rep, ctx):
    n_cls = n_pairs = 0
    unknown = []
    for c in P.classes.values():
        mro = P.mro(c.qual)
        if MS not in mro[1:]:
            continue
        n_cls += 1
        declared = set()
        for d in c.node.decorator_list:
            if isinstance(d, ast.Call) and norm(d.func) in ("override", "overrides"):
                declared |= {a.value for a in d.args if isinstance(a, ast.Constant)}
        for f, ann in c.annots.items():
            if f.startswith("_") or norm(ann).startswith("ClassVar"):
                continue
            parent = next((P.classes[q] for q in mro[1:] if q in P.classes and f in P.classes[q].annots), None)
            if parent is None or f in declared:
                continue
            n_pairs += 1
            ta, tb = ntype(P, c.module, ann), ntype(P, parent.module, parent.annots[f])
            r = subtype(P, ta, tb)
            loc = f"{c.module.relpath}:{c.node.lineno}"
            if r is None:
                unknown.append(f"{c.qual}.{f}: {norm(ann)} vs {parent.name}: {norm(parent.annots[f])}")
                rep.ok("C13.R3", c.qual, f"{f}: {norm(ann)} vs inherited {norm(parent.annots[f])}: not classifiable statically (listed as unknown)", loc)
            else:
                rep.check(r, "C13.R3", c.qual, f"{f}: {norm(ann)} is a subtype of the inherited {norm(parent.annots[f])} ({parent.name})", loc, construct=f"{c.name}.{f}: {norm(ann)} vs {parent.name}.{f}: {norm(parent.annots[f])}",
                          message=f"{c.name}.{f}: {norm(ann)} is not a subtype of the inherited type {norm(parent.annots[f])} from {parent.name} and is not declared with @override: instances of {c.name} are not valid {parent.name} instances")
    rep.extra_coverage["schemas_rechecked"] = n_cls
    rep.extra_coverage["override_pairs"] = n_pairs
    rep.extra_coverage["unknown_pairs"] = unknown
    if n_cls < 30:
        raise AnalysisError(f"C13.R3: only {n_cls} schema classes found")
    rep.info(f"re-checked {n_pairs} undeclared field overrides in {n_cls} shipped schema classes; {len(unknown)} unknown")


def r5_const_specialisation(P, rep, ctx):
    """A constant may silently replace an inherited enum / literal field only with a value the parent's field accepts."""
    fi = P.func("schema.decorators.add_const_fields")
    af = fi.nested.get("add_fields")
    if af is None:
        raise AnalysisError("add_const_fields.add_fields not found")
    f = F(ctx, af)
    g = f.g
    mc = af.params[0]
    loops = [n for n in g.nodes if n.kind == "for" and f.x(n.stmt.iter) == f"{fi.params[0]}.items()" and isinstance(n.stmt.target, ast.Tuple) and len(n.stmt.target.elts) == 2]
    if len(loops) != 1:
        raise AnalysisError("C13.R5: loop over consts.items() not found in add_fields")
    L = loops[0].idx
    nm, val = norm(loops[0].stmt.target.elts[0]), norm(loops[0].stmt.target.elts[1])
    FD = f"{mc}.__fields__.get({nm})"
    inherited = f.tests(FD, f"{FD} is not None", f"{nm} in {mc}.__fields__")
    is_en = f.tests(f"is_enum({FD}.type_)")
    is_li = f.tests(f"is_literal({FD}.type_)")
    # the validity flag: a multiply-assigned local tested on the way to `raise TypeError`
    type_raises = [n.idx for n in g.nodes if n.kind == "stmt" and isinstance(n.stmt, ast.Raise) and n.stmt.exc is not None and "TypeError" in f.x_at(n.idx, n.stmt.exc)]
    val_raises = [n.idx for n in g.nodes if n.kind == "stmt" and isinstance(n.stmt, ast.Raise) and n.stmt.exc is not None and "ValueError" in f.x_at(n.idx, n.stmt.exc)]
    flag = None
    for t in g.nodes:
        if t.kind == "test" and isinstance(t.exprs[0], ast.Name) and f.refuses([(t.idx, "F")]) and f.reaches([(t.idx, "F")], type_raises) and not (set(type_raises) & (g.reach(f.heads([(t.idx, "T")]), avoid=[L]) | set(f.heads([(t.idx, "T")])))):
            flag = t
    d = local_defs(af)
    vs = sorted({f.x(v) for k, v in d.get(flag.exprs[0].id, []) if v is not None}) if flag is not None else []
    direct = [f"not isinstance({val}, {FD}.type_)"], [f"not is_subtype(Literal[{val}], {FD}.type_)"]
    want = sorted({"False", f"isinstance({val}, {FD}.type_)", f"is_subtype(Literal[{val}], {FD}.type_)"})
    ok_flag = flag is not None and vs == want
    if ok_flag:
        # each definition is made under its own kind, and the flag is consulted whenever one of the kinds applies
        en_defs = [i for i, v, b in f.stores(flag.exprs[0].id) if f.x(v) == f"isinstance({val}, {FD}.type_)"]
        li_defs = [i for i, v, b in f.stores(flag.exprs[0].id) if f.x(v) == f"is_subtype(Literal[{val}], {FD}.type_)"]
        it = (L, "iter")
        ok_flag = (bool(is_en) and bool(is_li) and bool(inherited) and f.all_hit_before(en_defs, edges=is_en, src=L) and f.all_hit_before(li_defs, edges=is_li, src=L)
                   # the flag consulted for an enum field was computed by the enum test, for a literal field by the literal test
                   and f.hit_before(flag.idx, nodes=en_defs, edges=f.neg(is_en), src_edge=it) and f.hit_before(flag.idx, nodes=li_defs, edges=f.neg(is_li) + is_en, src_edge=it)
                   # and it is consulted whenever the inherited field is an enum or a literal
                   and f.hit_before(L, nodes=[flag.idx], edges=f.neg(is_en) + f.neg(inherited), src_edge=it) and f.hit_before(L, nodes=[flag.idx], edges=f.neg(is_li) + f.neg(inherited), src_edge=it))
    else:
        # flag-free form: the two tests are made directly
        a = f.refuses_when([[f"is_enum({FD}.type_)"], direct[0]], src_edge=(L, "iter"), targets=[L, g.exit])
        b_ = f.refuses_when([[f"is_literal({FD}.type_)"], direct[1]], src_edge=(L, "iter"), targets=[L, g.exit])
        ok_flag = bool(a) and bool(b_)
    rep.check(ok_flag, "C13.R5", af.qual, "enum constants must be members of the parent's enum, literal constants a sub-literal of the parent's literal", af.loc(), construct="valid specialisation",
              message=f"add_const_fields accepts a constant for an inherited enum/literal field under {vs}: e.g. an enum *name* that is not a valid *value* is dumped by the child and rejected by the parent")
    rep.check(ok_flag and bool(type_raises), "C13.R5", af.qual, "an invalid specialisation raises TypeError", af.loc(), construct="invalid specialisation raises", message="an invalid enum/literal specialisation is not refused")
    need_ovr = f.refuses_when([[FD, f"{FD} is not None", f"{nm} in {mc}.__fields__"], [f"not {fi.params[1]}"], [f"not is_enum({FD}.type_)"], [f"not is_literal({FD}.type_)"]], src_edge=(L, "iter"), targets=[L, g.exit])
    rep.check(bool(need_ovr) and bool(val_raises), "C13.R5", af.qual,
              "overriding an ordinary inherited field with a constant needs override=True", af.loc(), construct="override required", message="add_const_fields silently replaces an ordinary inherited field")


def r10_type_hint_source(P, rep, ctx):
    """The override check compares the *declared* type hints of parent and child (typing.get_type_hints with extras): the hint
    of a class is computed from that class object, by the typing machinery, every time it is asked for by a new class object.
    (a) util.typing.get_type_hints hands out nothing but the result of typing / typing_extensions get_type_hints -- pydantic's
    `outer_type_` / `type_` drop Optional and are no substitute; (b) schema/core.py keeps no module-level table of hints (or of
    anything else mutable): a table keyed by a class's *name* serves a re-defined or same-named class the other class's hints."""
    fi = P.func("util.typing.get_type_hints")
    f = F(ctx, fi)
    rets = [f.x_at(i, v) for i, v in f.returns() if v is not None]
    ok = bool(rets) and all(r.startswith(("te.get_type_hints(", "typing.get_type_hints(", "typing_extensions.get_type_hints(", "get_type_hints(")) for r in rets)
    rep.check(ok, "C13.R10", fi.qual, "type hints come from typing.get_type_hints only", fi.loc(), construct=f"get_type_hints returns {[r[:40] for r in rets]}",
              message=f"util.typing.get_type_hints can return {[r[:60] for r in rets if not r.startswith(('te.get_type_hints(', 'typing.get_type_hints('))]}: hints that are not the declared ones (pydantic's field types drop Optional / constraints) make the parent-child comparison accept a child that widens a field")
    m = P.module("schema.core")
    for st in m.tree.body:
        tg = st.targets[0] if isinstance(st, ast.Assign) and len(st.targets) == 1 else st.target if isinstance(st, ast.AnnAssign) else None
        val = getattr(st, "value", None)
        if not isinstance(tg, ast.Name) or val is None:
            continue
        mutable = isinstance(val, (ast.Dict, ast.List, ast.DictComp, ast.ListComp)) or (isinstance(val, ast.Call) and norm(val.func).split(".")[-1] in ("dict", "list", "defaultdict", "OrderedDict", "WeakValueDictionary", "WeakKeyDictionary"))
        if not mutable:
            continue
        users = sorted({fi_.name for fi_ in P.functions.values() if fi_.module.name == "schema.core" and any(isinstance(x, ast.Name) and x.id == tg.id for x in ast.walk(fi_.node))})
        rep.check(False, "C13.R10", "schema.core", f"no module-level mutable table ({tg.id})", f"{m.relpath}:{st.lineno}", construct=f"module-level {tg.id}",
                  message=f"schema/core.py keeps a module-level mutable table `{tg.id}` (used by {users}): what a schema class is checked against now depends on what was asked before (e.g. hints cached under a class *name* are served to another class of that name)")
    rep.ok("C13.R10", "schema.core", "module state of schema/core.py checked", m.relpath)


def r9_config_whitelist(P, rep, ctx):
    """A schema class may override only the pydantic Config keys in ALLOWED_SCHEMA_CONFIG_FIELDS.  None of them may change how
    the values of *inherited* fields are coerced, validated or dumped -- otherwise a child accepts or writes something its parent
    does not read as the same value.  (`extra` and `allow_mutation` do not touch declared fields.)"""
    from .c12 import PARSE_CONFIG

    m = P.module("schema.core")
    val = m.assigns.get("ALLOWED_SCHEMA_CONFIG_FIELDS")
    if not isinstance(val, (ast.Set, ast.List, ast.Tuple)) or not all(isinstance(e, ast.Constant) and isinstance(e.value, str) for e in val.elts):
        raise AnalysisError("C13.R9: ALLOWED_SCHEMA_CONFIG_FIELDS is not a literal set of names")
    keys = {e.value for e in val.elts}
    risky = sorted((keys & (set(PARSE_CONFIG) | {"json_encoders", "json_dumps", "json_loads", "fields", "alias_generator", "validate_all", "validate_assignment", "smart_union", "arbitrary_types_allowed", "orm_mode", "copy_on_model_validation"})) - {"extra"})
    rep.check(not risky, "C13.R9", "schema.core", "schema classes cannot override value-mapping Config keys", m.relpath, construct=f"ALLOWED_SCHEMA_CONFIG_FIELDS = {sorted(keys)}",
              message=f"ALLOWED_SCHEMA_CONFIG_FIELDS lets a schema class override {risky}: a child schema can change how inherited fields are parsed / serialised, so what it writes is no longer something its parent schema accepts as the same value")


def r8_atomic_types_source(P, rep, ctx):
    """The override check looks at the schema classes nested in a field through util.models.field_atomic_types.  pydantic
    (v1) resolves forward references in `ModelField.type_` (and its sub-fields) only: `outer_type_` keeps the annotation as
    written, so a nested schema behind a forward reference inside a container stays an unresolved ForwardRef there and is
    not seen by the check.  The types must be taken from `type_`."""
    fi = P.func("util.models.field_atomic_types")
    f = F(ctx, fi)
    mf = fi.params[0]
    srcs = []
    for c in local_calls(fi.node):
        if isinstance(c.func, ast.Name) and c.func.id == "traverse_typehint" and c.args:
            site = node_of(f.g, c)
            srcs.append(f.x_at(site, c.args[0]) if site is not None else norm(c.args[0]))
    rep.check(bool(srcs) and all(s_ == f"{mf}.type_" for s_ in srcs), "C13.R8", fi.qual, "nested types of a field are read from the resolved ModelField.type_", fi.loc(), construct=f"field_atomic_types source {srcs}",
              message=f"field_atomic_types traverses {srcs} instead of `{mf}.type_`: annotations that pydantic has not resolved (forward references inside containers) hide nested schemas from the override check, so a child may widen such a field unnoticed")


def r7_make_mandatory(P, rep, ctx):
    """@make_mandatory only *tightens* an inherited field: the inherited ModelField object (with the parents' validators,
    constraints and alias) stays, it is flagged required and the hint loses its Optional."""
    outer = P.func("schema.decorators.make_mandatory")
    fi = outer.nested.get("make_fields_mandatory")
    if fi is None:
        raise AnalysisError("C13.R7: make_mandatory.make_fields_mandatory not found")
    f = F(ctx, fi)
    g = f.g
    mc = fi.params[0]
    names_p = outer.node.args.vararg.arg if outer.node.args.vararg else outer.params[0]
    loops = [n for n in g.nodes if n.kind == "for"]
    vloops = [n for n in loops if isinstance(n.stmt.target, ast.Name) and f.x(n.stmt.iter) == names_p]
    if len(vloops) != 1:
        raise AnalysisError("C13.R7: the loop over the given names not found in make_mandatory")
    L, nm = vloops[0].idx, vloops[0].stmt.target.id
    replaced = [(i, v) for i, v, b in f.stores(f"{mc}.__fields__[__k]")] + [(i, None) for i in f.deletes(f"{mc}.__fields__[__k]")]
    for i, v in replaced:
        rep.fail("C13.R7", fi.qual, f"field object replaced: {norm(g.nodes[i].stmt)[:70]}", f"make_mandatory replaces / removes the inherited field object ({norm(g.nodes[i].stmt)[:80]}): validators and constraints the parents attached to the field are lost, so the child accepts (and serialises) values its parent schema rejects", fi.loc(g.nodes[i].stmt))
    WANT = "unoptional(field_parent_type({mc}, {k}))"
    # the loop that applies the change: the name loop itself, or a second loop over a dict {name: new hint} built in it
    ok = False
    anchors = None
    req_all = [i for i, v, b in f.stores(f"{mc}.__fields__[__k].required") if norm(v) == "True"]
    for al in loops:
        tg = al.stmt.target
        if al is vloops[0]:
            k_, h_want = nm, None
        elif isinstance(tg, ast.Tuple) and len(tg.elts) == 2 and all(isinstance(x, ast.Name) for x in tg.elts) and isinstance(al.stmt.iter, ast.Call) and call_attr(al.stmt.iter) == "items" and isinstance(al.stmt.iter.func.value, ast.Name):
            db = f.dict_build(al.stmt.iter.func.value)
            fam = db["families"] if db is not None and not db["const"] else []
            if len(fam) != 1 or fam[0]["src"] != names_p or fam[0]["key"] != "V0" or fam[0]["val"] != WANT.format(mc=mc, k="V0") or not MM.equivalent(fam[0]["kept"], "True"):
                continue
            k_, h_want = tg.elts[0].id, tg.elts[1].id
            anchors = list(fam[0].get("nodes", []))  # what the second loop does happens for the names recorded here
        else:
            continue
        req = [i for i, v, b in f.stores(f"{mc}.__fields__[{k_}].required") if norm(v) == "True"]
        hint = [i for i, v, b in f.stores(f"{mc}.__annotations__[{k_}]") if (norm(g.nodes[i].stmt.value) == h_want if h_want else f.x_at(i, g.nodes[i].stmt.value) == WANT.format(mc=mc, k=k_))]
        if req and hint and f.hit_before(al.idx, nodes=req, src_edge=(al.idx, "iter")) and f.hit_before(al.idx, nodes=hint, src_edge=(al.idx, "iter")) and f.hit_before(g.exit, nodes=[al.idx]) and set(req) == set(req_all):
            ok = True
    rep.check(ok and not replaced, "C13.R7", fi.qual, "each named inherited field is flagged required in place and its hint becomes the parent's hint without Optional", fi.loc(), construct="make_mandatory tightening",
              message="make_mandatory does not (only) set `required = True` on the inherited field and narrow its hint to unoptional(parent hint)")
    missing = f.tests(f"{nm} not in {mc}.__fields__")
    own = f.tests(f"{nm} in get_annotations({mc})")
    guarded = anchors if anchors else req_all
    rep.check(f.refuses(missing) and f.refuses(own) and f.all_hit_before(guarded, nodes=f.test_nodes(missing), src=L) and f.all_hit_before(guarded, nodes=f.test_nodes(own), src=L), "C13.R7", fi.qual, "unknown fields and fields re-declared in the class are refused", fi.loc(), construct="make_mandatory refusals",
              message="make_mandatory accepts a name that is not an inherited field / that the class re-declares itself")


def r4_wrapper_stricter(P, rep, ctx):
    fi = P.func("util.typing.is_subtype")
    f = F(ctx, fi)
    g = f.g
    a, b = fi.params[0], fi.params[1]
    rets = [(i, v) for i, v in f.returns() if v is not None]
    RV = f"rv.is_subtype({a}, {b})"
    REC = f"is_subtype(get_args({a})[0], get_args({b})[0])"

    def kind(i, v):
        if isinstance(v, ast.Constant) and v.value is False:
            return "false"
        t = _unpack_expand(f, v)
        return "rv" if t == RV else "rec" if t == REC else "other"

    kinds = [(i, kind(i, v), v) for i, v in rets]
    bad = [v for i, k, v in kinds if k == "other"]
    rep.check(not bad, "C13.R4", fi.qual, "is_subtype returns only False, the third-party verdict, or a recursive verdict", fi.loc(), construct="is_subtype results",
              message=f"is_subtype accepts on its own (`return {norm(bad[0]) if bad else ''}`): a shortcut that bypasses the structural subtype test lets incompatible overrides through (e.g. Int under a strict Float)")
    A = lambda x: f"is_annotated({x})"
    Lt = lambda x: f"is_literal({x})"
    ann_diff = _tests_unpacked(f, f"{A(a)} != {A(b)}", f"{A(b)} != {A(a)}")
    lit_diff = _tests_unpacked(f, f"{Lt(a)} != {Lt(b)}", f"{Lt(b)} != {Lt(a)}")
    ann = _tests_unpacked(f, A(a), A(b))
    r_false = [i for i, k, v in kinds if k == "false"]
    r_rv = [i for i, k, v in kinds if k == "rv"]
    r_rec = [i for i, k, v in kinds if k == "rec"]
    ok = all((ann_diff, lit_diff, ann, r_false, r_rv, r_rec))
    if ok:
        ok = (f.all_hit_before(r_false, edges=ann_diff + lit_diff) and not f.reaches(ann_diff, r_rv + r_rec) and not f.reaches(lit_diff, r_rv + r_rec)
              and f.all_hit_before(r_rv, edges=f.neg(ann)) and f.all_hit_before(r_rec, edges=ann)
              and f.all_hit_before(r_rv + r_rec, nodes=f.test_nodes(ann_diff)) and f.all_hit_before(r_rv + r_rec, nodes=f.test_nodes(lit_diff)))
    rep.check(ok, "C13.R4", fi.qual, "differently wrapped hints (Annotated / Literal on one side only) are refused; plain hints go to the structural test; Annotated hints compare their base types", fi.loc(), construct="is_subtype decision structure",
              message="is_subtype's decision structure changed (which hints are refused outright / delegated / unwrapped)")
    from .common import require_total

    for q in ("util.typing.is_subtype", "schema.core.detect_field_overrides", "schema.core.SchemaMagic.__new__", "schema.core.infer_parent", "schema.core.is_pub_instance_field"):
        require_total(rep, ctx, "C13.R4", P.func(q))
    rep.check(bool(r_rv), "C13.R4", fi.qual, "plain hints are decided by the structural subtype test", fi.loc(), construct="delegation", message="is_subtype no longer delegates to runtype")


def _unpack_map(f) -> Dict[str, ast.AST]:
    """names bound by `a, b = (x, y)` -> x, y"""
    out = {}
    for st in walk_local(f.node):
        if isinstance(st, ast.Assign) and len(st.targets) == 1 and isinstance(st.targets[0], ast.Tuple) and isinstance(st.value, ast.Tuple) and len(st.value.elts) == len(st.targets[0].elts):
            for t, v in zip(st.targets[0].elts, st.value.elts):
                if isinstance(t, ast.Name):
                    out[t.id] = v
    return out


def _unpack_expand(f, e: ast.AST) -> str:
    import copy

    m = _unpack_map(f)

    class T(ast.NodeTransformer):
        def visit_Name(self, node):
            if isinstance(node.ctx, ast.Load) and node.id in m:
                return copy.deepcopy(m[node.id])
            return node

    return f.x(T().visit(copy.deepcopy(e)))


def _tests_unpacked(f, *patterns):
    out = []
    pats = [MM.polarity(MM.pat(p)) for p in patterns]
    for n in f.g.nodes:
        if n.kind != "test":
            continue
        a, neg = MM.polarity(MM.pat(_unpack_expand(f, n.exprs[0])))
        for pa, pn in pats:
            if MM.match(pa, a) is not None:
                lab = "T" if neg == pn else "F"
                if (n.idx, lab) not in out:
                    out.append((n.idx, lab))
    return out
