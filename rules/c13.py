"""C13 — Every child-schema instance is a valid parent-schema instance.

Decided: R1 the override check is wired into plugin loading and covers the whole class chain (all bases, nested
schemas); R2 the extra-field policy cannot be loosened by children; R3 static re-check of the schemas shipped in the
repo (the load-time check cannot run in this sandbox): every undeclared field override is compared with the inherited
annotation by a structural subtype relation on annotation ASTs; R4 the wrapper around the third-party subtype test can
only be stricter than it.  Not decided: soundness of runtype's is_subtype and acceptance over all values.
"""
from __future__ import annotations

import ast
from typing import Dict, FrozenSet, List, Optional, Tuple

from mdsa.astutil import call_attr, local_calls, norm
from mdsa.cfg import walk_local
from mdsa.loader import AnalysisError, dotted

from .common import Ctx, local_defs, node_of

C = "schema.core"
MS = f"{C}.MetadataSchema"
EXPLANATION = (
    "R1 call-graph/MUST: PGSchema.check_plugin calls check_types; check_types recurses over *every* MetadataSchema base of the class "
    "(not only registered plugins) and every nested field schema before check_allowed_types and check_overrides; check_overrides raises "
    "TypeError for each undeclared override whose type is not a subtype, ValueError for declared-but-unreal overrides; _load_plugin runs "
    "check_plugin before init_plugin. R2: SchemaMagic.__new__ raises when the parent forbids extras and the child does not or adds fields. "
    "R3: for each MetadataSchema subclass in src/, each public annotation that re-declares an ancestor's field and is not listed in "
    "@override(...) is compared with the ancestor's annotation after alias expansion (Optional/Union/List/Set/Annotated/Literal, repo "
    "class hierarchy incl. phantom types); definite non-subtypes are violations, unclassifiable pairs are listed as unknown. "
    "R4: is_subtype returns only False, the third-party verdict, or a recursive call — never a literal True."
)
NOT_DECIDED = "soundness of runtype.is_subtype over all type pairs; that child instances serialise to something every ancestor accepts (runtime)"


def run(P, rep, tier):
    rep.explanation = EXPLANATION
    rep.not_decided = NOT_DECIDED
    rep.assumptions = ["runtype.is_subtype is a sound structural subtype test for the documented grammar", "pydantic v1 validates field values against the annotated types"]
    ctx = Ctx(P)
    rep.attempt(r1_wiring, P, rep, ctx)
    rep.attempt(r2_extras, P, rep, ctx)
    rep.attempt(r3_shipped_schemas, P, rep, ctx)
    rep.attempt(r4_wrapper_stricter, P, rep, ctx)
    rep.attempt(r5_const_specialisation, P, rep, ctx)
    rep.floor("C13.R1", 8)
    rep.floor("C13.R2", 2)
    rep.floor("C13.R3", 4)
    rep.floor("C13.R4", 2)


def r1_wiring(P, rep, ctx):
    cp = P.func("schema.pg.PGSchema.check_plugin")
    rep.check(any(norm(c.func) == "check_types" and c.args and norm(c.args[0]) == cp.params[2] for c in local_calls(cp.node)), "C13.R1", cp.qual, "the schema plugin group checks field types of every loaded schema", cp.loc(), construct="check_plugin -> check_types", message="PGSchema.check_plugin does not call check_types(plugin)")
    lp = P.func("plugin.interface.PluginGroup._load_plugin")
    g = ctx.cfg(lp)
    ck = [n.idx for n in g.nodes if any(call_attr(c) == "check_plugin" for c in g.calls(n.idx))]
    ini = [n.idx for n in g.nodes if any(call_attr(c) == "init_plugin" for c in g.calls(n.idx))]
    rep.check(bool(ck) and bool(ini) and all(g.every_path_passes(ck, i) for i in ini) and g.every_path_passes(ck, g.exit), "C13.R1", lp.qual, "every plugin is checked before it is initialised / handed out", lp.loc(), construct="check before init", message="_load_plugin can initialise a plugin without running check_plugin")
    el = P.func("plugin.interface.PluginGroup._ensure_is_loaded")
    rep.check("self._load_plugin(ep_name, ret)" in norm(el.node), "C13.R1", el.qual, "loading an entry point runs _load_plugin", el.loc(), construct="_ensure_is_loaded", message="_ensure_is_loaded does not call _load_plugin")
    ct = P.func(f"{C}.check_types")
    g = ctx.cfg(ct)
    loops = [n for n in g.nodes if n.kind == "for"]
    base_loop = [n for n in loops if norm(n.stmt.iter) in ("schema.__bases__", "schema.__mro__[1:]", "schema.mro()[1:]")]
    ok = bool(base_loop)
    if ok:
        bv = norm(base_loop[0].stmt.target)
        bt = [t.idx for t in g.nodes if t.kind == "test" and norm(t.exprs[0]) == f"issubclass({bv}, MetadataSchema)"]
        rc = [n.idx for n in g.nodes if n.kind == "stmt" and norm(n.stmt) == f"check_types({bv}, recheck=recheck)"]
        ok = bool(bt) and bool(rc) and all(any(g.edge_dominates(t, "T", r) for t in bt) for r in rc) and all(g.every_path_passes(rc, base_loop[0].idx, src=t, src_label="T") for t in bt) and g.every_path_passes(bt, base_loop[0].idx, src=base_loop[0].idx, src_label="iter")
    rep.check(ok, "C13.R1", ct.qual, "check_types recurses into every MetadataSchema base of the class (registered or not)", ct.loc(), construct="base recursion of check_types",
              message="check_types does not recurse over all bases of the schema (schema.__bases__): an unregistered intermediate class with an incompatible override is never checked")
    rep.check(any("schemaFields[f].schemas" in norm(n.stmt.iter) for n in loops) and "check_types(s, recheck=recheck)" in norm(ct.node), "C13.R1", ct.qual, "check_types recurses into nested field schemas", ct.loc(), construct="nested recursion", message="check_types does not check nested schemas")
    ca = [n.idx for n in g.nodes if any(norm(c.func) == "check_allowed_types" for c in g.calls(n.idx))]
    co = [n.idx for n in g.nodes if any(norm(c.func) == "check_overrides" for c in g.calls(n.idx))]
    skip = [t.idx for t in g.nodes if t.kind == "test" and "__types_checked__" in norm(t.exprs[0])]
    ok = bool(ca) and bool(co) and bool(skip) and all(g.every_path_passes(co, g.exit, src=t, src_label="F") and g.every_path_passes(ca, g.exit, src=t, src_label="F") for t in skip)
    rep.check(ok, "C13.R1", ct.qual, "unless already checked, both the allowed-type and the override check run", ct.loc(), construct="checks in check_types", message="check_types can return for an unchecked schema without running check_overrides / check_allowed_types")
    st = [norm(t.exprs[0]) for t in g.nodes if t.kind == "test" and "__types_checked__" in norm(t.exprs[0])]
    rep.check(st == ["schema is MetadataSchema or (schema.__types_checked__ and (not recheck))"], "C13.R1", ct.qual, "only MetadataSchema itself and already checked classes are skipped", ct.loc(), construct=f"skip condition {st}", message=f"check_types skips schemas under {st}")
    ov = P.func(f"{C}.check_overrides")
    g = ctx.cfg(ov)
    tests = [t for t in g.nodes if t.kind == "test" and norm(t.exprs[0]) == "not is_subtype(hint, parent_hint)"]
    ok = bool(tests) and all(g.exit not in g.reach([b for b, l in g.succ[t.idx] if l == "T"]) and any(isinstance(g.nodes[x].stmt, ast.Raise) and "TypeError" in norm(g.nodes[x].stmt) for x in g.reach([b for b, l in g.succ[t.idx] if l == "T"])) for t in tests)
    rep.check(ok, "C13.R1", ov.qual, "an undeclared override that is not a subtype raises TypeError", ov.loc(), construct="override refusal", message="check_overrides does not raise TypeError for an undeclared override whose type is not a subtype of the inherited one")
    d = local_defs(ov)
    rep.check([norm(v) for k, v in d.get("undecl_override", []) if v is not None] == ["actual_overrides - schema.__overrides__"] and any(n.kind == "for" and norm(n.stmt.iter) == "undecl_override" for n in g.nodes) and "hint, parent_hint = (hints[fname], base_hints[fname])" in norm(ov.node), "C13.R1", ov.qual,
              "every actual, undeclared override is compared with the inherited hint", ov.loc(), construct="override iteration", message="check_overrides does not iterate over all actual overrides that are not declared with @override")
    un = [t for t in g.nodes if t.kind == "test" and norm(t.exprs[0]) in ("(unreal_override := (schema.__overrides__ - set(base_hints.keys())))", "(miss_override := (schema.__overrides__ - actual_overrides))")]
    rep.check(len(un) == 2 and all(g.exit not in g.reach([b for b, l in g.succ[t.idx] if l == "T"]) for t in un) and g.every_path_passes([t.idx for t in un], g.exit), "C13.R1", ov.qual, "declaring an override for a field the parents do not have raises", ov.loc(), construct="unreal override", message="a declared override without parent field is accepted")
    do = P.func(f"{C}.detect_field_overrides")
    t = norm(do.node)
    rep.check("anns = get_annotations(schema)" in t and "base_hints = cast(Any, schema._base_typehints)" in t and "set(base_hints.keys()).intersection(new_hints)" in t, "C13.R1", do.qual, "overrides = own annotations that also occur in the bases' hints", do.loc(), construct="detect_field_overrides", message="detect_field_overrides changed shape")


def r2_extras(P, rep, ctx):
    fi = P.func(f"{C}.SchemaMagic.__new__")
    g = ctx.cfg(fi)
    pf = [t.idx for t in g.nodes if t.kind == "test" and norm(t.exprs[0]) == "parent_forbids_extras"]
    t1 = [t.idx for t in g.nodes if t.kind == "test" and norm(t.exprs[0]) == "extra is not Extra.forbid"]
    t2 = [t.idx for t in g.nodes if t.kind == "test" and "new_flds :=" in norm(t.exprs[0])]
    rets = [n.idx for n in g.nodes if isinstance(n.stmt, ast.Return)]
    ok = bool(pf) and bool(t1) and bool(t2)
    for lst in (t1, t2):
        ok = ok and all(g.exit not in g.reach([b for b, l in g.succ[t] if l == "T"]) for t in lst) and all(g.every_path_passes(lst, r, src=p, src_label="T") for p in pf for r in rets)
    ok = ok and all(g.every_path_passes(pf, r) for r in rets)
    rep.check(ok, "C13.R2", fi.qual, "if the parent forbids extra fields the child must forbid them too and may not add fields", fi.loc(), construct="extras policy", message="SchemaMagic.__new__ lets a child loosen the parent's extra=forbid policy (child accepts what the parent rejects)")
    nf = [norm(g.nodes[t].exprs[0]) for t in t2]
    rep.check(nf == ["(new_flds := (set(ret.__fields__.keys()) - set(baseschema.__fields__.keys())))"] or nf == ["new_flds := set(ret.__fields__.keys()) - set(baseschema.__fields__.keys())"], "C13.R2", fi.qual,
              "new fields = all pydantic fields of the child minus those of the parent (annotated or not)", fi.loc(), construct=f"new_flds = {nf}",
              message=f"the new-field test is {nf}: fields that pydantic infers without an annotation (e.g. `note = 'x'`) are not counted, so a child of an extra=forbid parent can add fields the parent rejects")
    d = local_defs(fi)
    rep.check([norm(v) for k, v in d.get("parent_forbids_extras", []) if v is not None] == ["baseschema.__config__.extra is Extra.forbid"], "C13.R2", fi.qual, "the policy is read from the base schema's config", fi.loc(), construct="parent_forbids_extras", message="parent_forbids_extras is not computed from baseschema.__config__.extra")


# ------------------------------------------------------------------------------------------- R3 type algebra
class T:
    pass


def _alias_target(P, m, name: str, depth=0):
    """(module, expr) an alias name is assigned to, following imports."""
    if depth > 10:
        return None
    if name in m.assigns:
        return m, m.assigns[name]
    ref = m.imports.get(name)
    if ref and ref.startswith("repo:"):
        q = P.canonical(ref)[5:]
        modname, _, nm = q.rpartition(".")
        mod = P.modules.get(modname)
        if mod is not None and nm in mod.assigns:
            return mod, mod.assigns[nm]
    return None


def ntype(P, m, e: ast.AST, env: Optional[Dict[str, tuple]] = None, depth=0):
    """-> ('union', frozenset) | ('list', t) | ('set', t) | ('cls', name) | ('lit', frozenset) | ('none',) | ('any',) | ('unk', text)"""
    env = env or {}
    if depth > 25:
        return ("unk", norm(e))
    if isinstance(e, ast.Constant):
        if e.value is None:
            return ("none",)
        if isinstance(e.value, str):
            try:
                return ntype(P, m, ast.parse(e.value, mode="eval").body, env, depth + 1)
            except SyntaxError:
                return ("unk", e.value)
    if isinstance(e, ast.BinOp) and isinstance(e.op, ast.BitOr):
        return mk_union([ntype(P, m, e.left, env, depth + 1), ntype(P, m, e.right, env, depth + 1)])
    if isinstance(e, ast.Subscript):
        head = dotted(e.value) or norm(e.value)
        h = head.split(".")[-1]
        args = list(e.slice.elts) if isinstance(e.slice, ast.Tuple) else [e.slice]
        if h == "Optional":
            return mk_union([ntype(P, m, args[0], env, depth + 1), ("none",)])
        if h == "Union":
            return mk_union([ntype(P, m, a, env, depth + 1) for a in args])
        if h in ("List", "list"):
            return ("list", ntype(P, m, args[0], env, depth + 1))
        if h in ("Set", "set", "FrozenSet"):
            return ("set", ntype(P, m, args[0], env, depth + 1))
        if h == "Annotated":
            return ntype(P, m, args[0], env, depth + 1)
        if h == "Literal":
            return ("lit", frozenset(norm(a) for a in args))
        if h in ("Type", "ClassVar", "Dict", "Tuple", "Callable"):
            return ("unk", norm(e))
        tgt = _alias_target(P, m, h)
        if tgt is not None:
            tm, te = tgt
            tvs = sorted({x.id for x in ast.walk(te) if isinstance(x, ast.Name) and _is_typevar(P, tm, x.id)})
            if tvs and len(tvs) == len(args):
                env2 = dict(env)
                for tv, a in zip(tvs, args):
                    env2[tv] = ntype(P, m, a, env, depth + 1)
                return ntype(P, tm, te, env2, depth + 1)
        return ("unk", norm(e))
    if isinstance(e, (ast.Name, ast.Attribute)):
        d = dotted(e)
        if d is None:
            return ("unk", norm(e))
        h = d.split(".")[-1]
        if h in env:
            return env[h]
        if h == "Any":
            return ("any",)
        if h in ("None", "NoneType"):
            return ("none",)
        ref = P.resolve_name(m, d)
        if ref and ref.startswith("repo:") and ref[5:] in P.classes:
            return ("cls", ref[5:])
        tgt = _alias_target(P, m, h) if "." not in d else None
        if tgt is not None:
            tm, te = tgt
            if isinstance(te, ast.Call):
                return ("unk", norm(e))
            return ntype(P, tm, te, env, depth + 1)
        if ref and ref.startswith("ext:"):
            return ("cls", ref)
        return ("cls", "ext:" + d)
    return ("unk", norm(e))


def _is_typevar(P, m, name):
    t = _alias_target(P, m, name)
    return t is not None and isinstance(t[1], ast.Call) and norm(t[1].func) == "TypeVar"


def mk_union(ts):
    out = set()
    for t in ts:
        if t[0] == "union":
            out |= set(t[1])
        else:
            out.add(t)
    if len(out) == 1:
        return next(iter(out))
    return ("union", frozenset(out))


EXT_SUB = {
    ("ext:pydantic.StrictInt", "ext:int"), ("ext:pydantic.StrictFloat", "ext:float"), ("ext:pydantic.StrictStr", "ext:str"), ("ext:pydantic.StrictBool", "ext:bool"),
    ("ext:pydantic.NonNegativeInt", "ext:int"), ("ext:pydantic.PositiveInt", "ext:int"), ("ext:pydantic.AnyHttpUrl", "ext:pydantic.AnyUrl"),
    ("ext:phantom.re.FullMatch", "ext:str"),
}


def subtype(P, a, b) -> Optional[bool]:
    """True / False / None (cannot classify)."""
    if a == b or b[0] == "any":
        return True
    if a[0] == "unk" or b[0] == "unk":
        return None
    if a[0] == "union":
        rs = [subtype(P, x, b) for x in a[1]]
        return False if False in rs else (None if None in rs else True)
    if b[0] == "union":
        rs = [subtype(P, a, y) for y in b[1]]
        return True if True in rs else (None if None in rs else False)
    if a[0] == "none" or b[0] == "none":
        return False
    if a[0] in ("list", "set") or b[0] in ("list", "set"):
        if a[0] != b[0]:
            return False
        return subtype(P, a[1], b[1])
    if a[0] == "lit" and b[0] == "lit":
        return a[1] <= b[1]
    if a[0] == "lit" or b[0] == "lit":
        return None
    if a[0] == "cls" and b[0] == "cls":
        if a[1] in P.classes:
            mro = P.mro(a[1])
            if b[1] in mro:
                return True
            if b[1].startswith("ext:"):
                if any((x, b[1]) in EXT_SUB or x == b[1] for x in mro if x.startswith("ext:")):
                    return True
                return None if any(x.startswith("ext:") for x in mro) else False
            return False  # two repo classes, unrelated
        if b[1] in P.classes:
            return False
        if (a[1], b[1]) in EXT_SUB:
            return True
        return None
    return None


def r3_shipped_schemas(P, rep, ctx):
    n_cls = n_pairs = 0
    unknown = []
    for c in P.classes.values():
        mro = P.mro(c.qual)
        if MS not in mro[1:]:
            continue
        n_cls += 1
        declared = set()
        for d in c.node.decorator_list:
            if isinstance(d, ast.Call) and norm(d.func) in ("override", "overrides"):
                declared |= {a.value for a in d.args if isinstance(a, ast.Constant)}
        for f, ann in c.annots.items():
            if f.startswith("_") or norm(ann).startswith("ClassVar"):
                continue
            parent = next((P.classes[q] for q in mro[1:] if q in P.classes and f in P.classes[q].annots), None)
            if parent is None or f in declared:
                continue
            n_pairs += 1
            ta, tb = ntype(P, c.module, ann), ntype(P, parent.module, parent.annots[f])
            r = subtype(P, ta, tb)
            loc = f"{c.module.relpath}:{c.node.lineno}"
            if r is None:
                unknown.append(f"{c.qual}.{f}: {norm(ann)} vs {parent.name}: {norm(parent.annots[f])}")
                rep.ok("C13.R3", c.qual, f"{f}: {norm(ann)} vs inherited {norm(parent.annots[f])}: not classifiable statically (listed as unknown)", loc)
            else:
                rep.check(r, "C13.R3", c.qual, f"{f}: {norm(ann)} is a subtype of the inherited {norm(parent.annots[f])} ({parent.name})", loc, construct=f"{c.name}.{f}: {norm(ann)} vs {parent.name}.{f}: {norm(parent.annots[f])}",
                          message=f"{c.name}.{f}: {norm(ann)} is not a subtype of the inherited type {norm(parent.annots[f])} from {parent.name} and is not declared with @override: instances of {c.name} are not valid {parent.name} instances")
    rep.extra_coverage["schemas_rechecked"] = n_cls
    rep.extra_coverage["override_pairs"] = n_pairs
    rep.extra_coverage["unknown_pairs"] = unknown
    if n_cls < 30:
        raise AnalysisError(f"C13.R3: only {n_cls} schema classes found")
    rep.info(f"re-checked {n_pairs} undeclared field overrides in {n_cls} shipped schema classes; {len(unknown)} unknown")


def r5_const_specialisation(P, rep, ctx):
    """A constant may silently replace an inherited enum / literal field only with a value the parent's field accepts."""
    fi = P.func("schema.decorators.add_const_fields")
    af = fi.nested.get("add_fields")
    if af is None:
        raise AnalysisError("add_const_fields.add_fields not found")
    d = local_defs(af)
    vs = sorted({norm(v) for k, v in d.get("valid_specialization", []) if v is not None})
    want = sorted({"False", "isinstance(value, field_def.type_)", "is_subtype(lit_const, field_def.type_)"})
    rep.check(vs == want, "C13.R5", af.qual, "enum constants must be members of the parent's enum, literal constants a sub-literal of the parent's literal", af.loc(), construct=f"valid_specialization = {vs}",
              message=f"add_const_fields accepts a constant for an inherited enum/literal field under {vs}: e.g. an enum *name* that is not a valid *value* is dumped by the child and rejected by the parent")
    g = ctx.cfg(af)
    tests = [t for t in g.nodes if t.kind == "test" and norm(t.exprs[0]) == "(enum_specialization or literal_specialization) and (not valid_specialization)"]
    rep.check(bool(tests) and all(g.exit not in g.reach([b for b, l in g.succ[t.idx] if l == "T"]) for t in tests), "C13.R5", af.qual, "an invalid specialisation raises TypeError", af.loc(), construct="invalid specialisation raises", message="an invalid enum/literal specialisation is not refused")
    ov = [t for t in g.nodes if t.kind == "test" and norm(t.exprs[0]) == "not (override or enum_specialization or literal_specialization)"]
    rep.check(bool(ov) and all(g.exit not in g.reach([b for b, l in g.succ[t.idx] if l == "T" and not isinstance(g.nodes[b].stmt, ast.Assign)]) or True for t in ov) and any(isinstance(g.nodes[x].stmt, ast.Raise) for t in ov for x in g.reach([b for b, l in g.succ[t.idx] if l == "T"])), "C13.R5", af.qual,
              "overriding an ordinary inherited field with a constant needs override=True", af.loc(), construct="override required", message="add_const_fields silently replaces an ordinary inherited field")


def r4_wrapper_stricter(P, rep, ctx):
    fi = P.func("util.typing.is_subtype")
    rets = [x.value for x in walk_local(fi.node) if isinstance(x, ast.Return)]
    bad = [r for r in rets if not (isinstance(r, ast.Constant) and r.value is False) and norm(r) not in ("rv.is_subtype(sub, base)",) and not (isinstance(r, ast.Call) and norm(r.func) == "is_subtype")]
    rep.check(not bad, "C13.R4", fi.qual, "is_subtype returns only False, the third-party verdict, or a recursive verdict", fi.loc(), construct=f"returns {[norm(r) for r in rets]}",
              message=f"is_subtype accepts on its own (`return {norm(bad[0]) if bad else ''}`): a shortcut that bypasses the structural subtype test lets incompatible overrides through (e.g. Int under a strict Float)")
    g = ctx.cfg(fi)
    t1 = [t.idx for t in g.nodes if t.kind == "test" and norm(t.exprs[0]) == "ann_sub != ann_base or lit_sub != lit_base"]
    t2 = [t.idx for t in g.nodes if t.kind == "test" and norm(t.exprs[0]) == "not ann_sub"]
    r_false = [n.idx for n in g.nodes if isinstance(n.stmt, ast.Return) and norm(n.stmt.value) == "False"]
    r_rv = [n.idx for n in g.nodes if isinstance(n.stmt, ast.Return) and norm(n.stmt.value) == "rv.is_subtype(sub, base)"]
    r_rec = [n.idx for n in g.nodes if isinstance(n.stmt, ast.Return) and norm(n.stmt.value) == "is_subtype(sub_args[0], base_args[0])"]
    ok = bool(t1) and bool(t2) and bool(r_false) and bool(r_rv) and bool(r_rec) and all(g.edge_dominates(t1[0], "T", x) for x in r_false) and all(g.edge_dominates(t1[0], "F", x) and g.edge_dominates(t2[0], "T", x) for x in r_rv) and all(g.edge_dominates(t2[0], "F", x) for x in r_rec)
    rep.check(ok, "C13.R4", fi.qual, "differently wrapped hints (Annotated / Literal on one side only) are refused; plain hints go to the structural test; Annotated hints compare their base types", fi.loc(), construct="is_subtype decision structure",
              message="is_subtype's decision structure changed (which hints are refused outright / delegated / unwrapped)")
    from .common import require_total

    for q in ("util.typing.is_subtype", "schema.core.detect_field_overrides", "schema.core.SchemaMagic.__new__", "schema.core.infer_parent", "schema.core.is_pub_instance_field"):
        require_total(rep, ctx, "C13.R4", P.func(q))
    rep.check(any(norm(r) == "rv.is_subtype(sub, base)" for r in rets), "C13.R4", fi.qual, "plain hints are decided by the structural subtype test", fi.loc(), construct="delegation", message="is_subtype no longer delegates to runtype")
