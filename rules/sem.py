"""Function view with rename-, polarity- and layout-robust queries (thin layer over mdsa.match + mdsa.cfg).

All rule files should recognise constructs through this layer:
  * conditions are matched as polarity-normalised atoms of the CFG (`tests`), never as whole `if` texts;
  * expressions are matched structurally with metavariables after expanding single-definition locals
    (`calls`, `stmts`, `x`), never by the names of locals;
  * placement is asked of the CFG (`hit_before`, `refuses`, `edges`), never of the nesting of statements.
"""
from __future__ import annotations

import ast
import copy
from typing import Dict, Iterable, List, Optional, Sequence, Tuple

from mdsa import match as M
from mdsa.astutil import norm
from mdsa.cfg import CFG, walk_local

Edge = Tuple[int, str]


class F:
    def __init__(self, ctx, fi):
        self.ctx = ctx
        self.fi = fi
        self.g: CFG = ctx.cfg(fi)
        self.node = fi.node
        self._xs: Dict[int, ast.AST] = {}

    # ------------------------------------------------------------------ text
    def x(self, e: ast.AST) -> str:
        """normalised text of e with single-definition locals expanded"""
        return M.xtext(self.node, e)

    def xe(self, e: ast.AST) -> ast.AST:
        return M.expand(self.node, e)

    def xstmt(self, st: ast.AST) -> ast.AST:
        k = id(st)
        if k not in self._xs:
            defs = M._DEFS_CACHE.get(id(self.node))
            if defs is None:
                M.expand(self.node, ast.Constant(value=0))
                defs = M._DEFS_CACHE.get(id(self.node), {})
            self._xs[k] = ast.fix_missing_locations(M._Subst(defs, 6).visit(copy.deepcopy(st))) if defs else st
        return self._xs[k]

    # ------------------------------------------------------------------ conditions
    def tests(self, *patterns) -> List[Edge]:
        """(test node, label on which the pattern holds) for atoms matching any of the patterns"""
        out: List[Edge] = []
        for p in patterns:
            for e in M.find_tests(self.g, self.node, p):
                if e not in out:
                    out.append(e)
        return out

    def neg(self, edges: Iterable[Edge]) -> List[Edge]:
        return [(t, "F" if lab == "T" else "T") for t, lab in edges]

    def test_nodes(self, edges: Iterable[Edge]) -> List[int]:
        return sorted({t for t, _ in edges})

    def heads(self, edges: Iterable[Edge]) -> List[int]:
        """first nodes reached through the given out-edges"""
        return [b for t, lab in edges for b, l in self.g.succ[t] if l == lab]

    def refuses(self, edges: Sequence[Edge]) -> bool:
        """each of the given out-edges leads only to abnormal exits (raise), never to the normal exit"""
        g = self.g
        if not edges:
            return False
        for e in edges:
            hs = self.heads([e])
            if not hs or g.exit in hs or g.exit in g.reach_consistent([], start_edges=[e]):
                return False
        return True

    def refuses_when(self, literals: Sequence[Sequence[str]]) -> Optional[bool]:
        """The function never returns normally on a path consistent with ALL the given literals (each literal is
        a list of alternative spellings, polarity as written).  None: some literal is not tested anywhere."""
        blocked: List[Edge] = []
        for alts in literals:
            true_edges = self.tests(*alts)
            if not true_edges:
                return None
            blocked += self.neg(true_edges)
        g = self.g
        return g.exit not in g.reach_consistent([g.entry], labels_block=blocked)

    def reaches(self, edges: Sequence[Edge], nodes: Iterable[int]) -> bool:
        """some node of `nodes` is reachable after taking one of the out-edges"""
        hs = self.heads(edges)
        r = self.g.reach(hs) | set(hs)
        return bool(r & set(nodes))

    # ------------------------------------------------------------------ statements / calls
    def stmts(self, *patterns, kinds=("stmt",)) -> List[int]:
        """stmt nodes whose statement matches one of the (statement) patterns, as written or local-expanded"""
        out = []
        pats = [M.pat(p) if isinstance(p, str) else p for p in patterns]
        for n in self.g.nodes:
            if n.kind not in kinds or n.stmt is None:
                continue
            for p in pats:
                if M.match(p, n.stmt) is not None or M.match(p, self.xstmt(n.stmt)) is not None:
                    out.append(n.idx)
                    break
        return out

    def calls(self, *patterns) -> List[int]:
        """CFG nodes evaluating a call that matches one of the patterns (as written or local-expanded)"""
        out = []
        pats = [M.pat(p) if isinstance(p, str) else p for p in patterns]
        for n in self.g.nodes:
            hit = False
            for e in n.exprs:
                if e is None or hit:
                    continue
                for root in (e, self.xstmt(e) if isinstance(e, ast.stmt) else self.xe(e)):
                    for c in walk_local(root):
                        if isinstance(c, ast.Call) and any(M.match(p, c) is not None for p in pats):
                            hit = True
                            break
                    if hit:
                        break
            if hit:
                out.append(n.idx)
        return out

    def call_sites(self, pattern) -> List[Tuple[int, ast.Call, dict]]:
        """(node, call as written-or-expanded, bindings) of calls matching the pattern"""
        p = M.pat(pattern) if isinstance(pattern, str) else pattern
        out = []
        for n in self.g.nodes:
            seen = set()
            for e in n.exprs:
                if e is None:
                    continue
                for root in (e, self.xstmt(e) if isinstance(e, ast.stmt) else self.xe(e)):
                    for c in walk_local(root):
                        if isinstance(c, ast.Call):
                            b = M.match(p, c)
                            if b is not None and norm(c) not in seen:
                                seen.add(norm(c))
                                out.append((n.idx, c, b))
        return out

    def stores(self, target_pattern) -> List[Tuple[int, ast.AST, dict]]:
        """(node, value, bindings) of assignments one of whose targets matches the pattern (expanded)"""
        p = M.pat(target_pattern) if isinstance(target_pattern, str) else target_pattern
        out = []
        for n in self.g.nodes:
            st = n.stmt
            if n.kind != "stmt" or not isinstance(st, (ast.Assign, ast.AnnAssign, ast.AugAssign)):
                continue
            xs = self.xstmt(st)
            for s in (st, xs):
                tg = s.targets if isinstance(s, ast.Assign) else [s.target]
                hit = None
                for t in tg:
                    b = M.match(p, t)
                    if b is not None:
                        hit = b
                        break
                if hit is not None:
                    out.append((n.idx, xs.value, hit))
                    break
        return out

    def deletes(self, target_pattern) -> List[int]:
        p = M.pat(target_pattern) if isinstance(target_pattern, str) else target_pattern
        out = []
        for n in self.g.nodes:
            if n.kind == "stmt" and isinstance(n.stmt, ast.Delete):
                for s in (n.stmt, self.xstmt(n.stmt)):
                    if any(M.match(p, t) is not None for t in s.targets):
                        out.append(n.idx)
                        break
        return out

    def returns(self) -> List[Tuple[int, Optional[ast.AST]]]:
        return [(n.idx, n.stmt.value) for n in self.g.nodes if n.kind == "stmt" and isinstance(n.stmt, ast.Return)]

    def return_texts(self) -> List[str]:
        return sorted(self.x(v) if v is not None else "None" for _, v in self.returns())

    def raises(self) -> List[int]:
        return [n.idx for n in self.g.nodes if n.kind == "stmt" and isinstance(n.stmt, ast.Raise)]

    # ------------------------------------------------------------------ placement
    def hit_before(self, dst: int, nodes: Iterable[int] = (), edges: Iterable[Edge] = (), src: Optional[int] = None, src_edge: Optional[Edge] = None) -> bool:
        """every path from src (default entry; or from the head of src_edge) to dst passes one of `nodes` or
        takes one of `edges`"""
        g = self.g
        nodes = set(nodes)
        if dst in nodes:
            return True
        if src_edge is not None:
            hs = [h for h in self.heads([src_edge]) if h not in nodes]
            if dst in hs:
                return False
            return dst not in g.reach_consistent([], avoid=nodes, labels_block=list(edges), start_edges=[src_edge])
        starts = [g.entry if src is None else src]
        return dst not in g.reach_consistent(starts, avoid=nodes, labels_block=list(edges))

    def all_hit_before(self, dsts: Iterable[int], nodes: Iterable[int] = (), edges: Iterable[Edge] = (), **kw) -> bool:
        dsts = list(dsts)
        nodes = list(nodes)
        edges = list(edges)
        return bool(dsts) and all(self.hit_before(d, nodes, edges, **kw) for d in dsts)

    def only_under(self, dst: int, edges: Sequence[Edge]) -> bool:
        """dst is reached only after taking ALL of... no: after taking one of the given edges (control dependence)"""
        return self.hit_before(dst, edges=edges)

    def under_all(self, dst: int, edge_groups: Sequence[Sequence[Edge]]) -> bool:
        """dst is reached only on paths that took an edge of every group (conjunction of conditions)"""
        return all(bool(gr) and self.hit_before(dst, edges=gr) for gr in edge_groups)

    def witness(self, dst: int, nodes: Iterable[int] = (), src: Optional[int] = None) -> List[str]:
        return self.g.path_text(self.g.find_path(dst, avoid=set(nodes), src=src))

    def loc(self, idx: Optional[int] = None) -> str:
        if idx is None:
            return self.fi.loc()
        n = self.g.nodes[idx]
        return f"{self.fi.module.relpath}:{n.lineno}"


def fv(ctx, P, qual: str) -> F:
    return F(ctx, P.func(qual))
