"""Function view with rename-, polarity- and layout-robust queries (thin layer over mdsa.match + mdsa.cfg).

All rule files should recognise constructs through this layer:
  * conditions are matched as polarity-normalised atoms of the CFG (`tests`), never as whole `if` texts;
  * expressions are matched structurally with metavariables after expanding single-definition locals
    (`calls`, `stmts`, `x`), never by the names of locals;
  * placement is asked of the CFG (`hit_before`, `refuses`, `edges`), never of the nesting of statements.
"""
from __future__ import annotations

import ast
import copy
from typing import Dict, Iterable, List, Optional, Sequence, Tuple

from mdsa import match as M
from mdsa.astutil import norm
from mdsa.cfg import CFG, walk_local

Edge = Tuple[int, str]


_PURE_STR_METHODS = {"split", "rsplit", "strip", "lstrip", "rstrip", "partition", "rpartition", "lower", "upper", "splitlines"}


def _pure_seq(e: ast.AST) -> bool:
    """a name / attribute path, possibly with string methods that build a new value from constants: evaluating it twice
    gives the same value"""
    if isinstance(e, (ast.Name, ast.Constant)):
        return True
    if isinstance(e, ast.Attribute):
        return _pure_seq(e.value)
    if isinstance(e, ast.Call) and isinstance(e.func, ast.Attribute) and e.func.attr in _PURE_STR_METHODS and not e.keywords:
        return _pure_seq(e.func.value) and all(isinstance(a, ast.Constant) for a in e.args)
    return False


class Not:
    """spec value for decision_mismatches: any answer but these"""

    def __init__(self, *texts):
        self.texts = texts

    def __repr__(self):
        return "anything but " + " / ".join(self.texts)


class F:
    def __init__(self, ctx, fi):
        self.ctx = ctx
        self.fi = fi
        self.g: CFG = ctx.cfg(fi)
        self.node = fi.node
        self._xs: Dict[int, ast.AST] = {}

    # ------------------------------------------------------------------ reaching definitions
    def _rd(self):
        """IN[node] : name -> frozenset of defining node indices (entry index for parameters)"""
        if getattr(self, "_rdin", None) is not None:
            return self._rdin
        g = self.g
        gen: Dict[int, Dict[str, ast.AST]] = {}  # node -> {name: value or None}
        for n in g.nodes:
            d: Dict[str, Optional[ast.AST]] = {}
            roots = []
            if n.kind == "stmt" and n.stmt is not None:
                st = n.stmt
                if isinstance(st, ast.Assign):
                    for t in st.targets:
                        if isinstance(t, ast.Name):
                            d[t.id] = st.value if len(st.targets) == 1 else None
                            if len(st.targets) == 2:
                                # `a = b[k] = <value>`: a names the very object stored at b[k]
                                o = st.targets[1] if st.targets[0] is t else st.targets[0]
                                if isinstance(o, (ast.Attribute, ast.Subscript)) and not any(isinstance(x_, ast.Call) for x_ in ast.walk(o)):
                                    class _L(ast.NodeTransformer):
                                        def generic_visit(self, node):
                                            super().generic_visit(node)
                                            if hasattr(node, "ctx"):
                                                node.ctx = ast.Load()
                                            return node
                                    d[t.id] = _L().visit(copy.deepcopy(o))
                        elif isinstance(t, ast.Tuple) and isinstance(st.value, ast.Tuple) and len(t.elts) == len(st.value.elts) and len(st.targets) == 1 and all(isinstance(x_, ast.Name) for x_ in t.elts):
                            # `a, b = (x, y)`: element-wise definitions (when no right side reads a left name)
                            lhs = {x_.id for x_ in t.elts}
                            rhs_reads = {x_.id for v_ in st.value.elts for x_ in ast.walk(v_) if isinstance(x_, ast.Name)}
                            for x_, v_ in zip(t.elts, st.value.elts):
                                d[x_.id] = v_ if not (lhs & rhs_reads) else None
                        elif isinstance(t, ast.Tuple) and len(st.targets) == 1 and all(isinstance(x_, ast.Name) for x_ in t.elts) and M.is_plain_path(st.value) and not ({x_.id for x_ in t.elts} & {x_.id for x_ in ast.walk(st.value) if isinstance(x_, ast.Name)}):
                            # `a, b, c = seq` (seq a plain name / attribute path): a is seq[0], ...
                            for k_, x_ in enumerate(t.elts):
                                d[x_.id] = ast.copy_location(ast.Subscript(value=copy.deepcopy(st.value), slice=ast.Constant(value=k_), ctx=ast.Load()), st.value)
                        elif isinstance(t, ast.Tuple) and len(st.targets) == 1 and sum(isinstance(x_, ast.Starred) for x_ in t.elts) == 1 and all(isinstance(x_, ast.Name) or (isinstance(x_, ast.Starred) and isinstance(x_.value, ast.Name)) for x_ in t.elts) and _pure_seq(st.value) and not ({(x_.value if isinstance(x_, ast.Starred) else x_).id for x_ in t.elts} & {x_.id for x_ in ast.walk(st.value) if isinstance(x_, ast.Name)}):
                            # `first, *rest = seq` / `*_, last = seq` (seq a pure expression): first is seq[0], last is seq[-1]
                            star = next(k_ for k_, x_ in enumerate(t.elts) if isinstance(x_, ast.Starred))
                            n_el = len(t.elts)
                            for k_, x_ in enumerate(t.elts):
                                if isinstance(x_, ast.Starred):
                                    lo, hi = star, star - n_el + 1
                                    d[x_.value.id] = ast.copy_location(ast.Subscript(value=copy.deepcopy(st.value), slice=ast.Slice(lower=ast.Constant(value=lo) if lo else None, upper=ast.UnaryOp(op=ast.USub(), operand=ast.Constant(value=-hi)) if hi else None), ctx=ast.Load()), st.value)
                                else:
                                    ix_ = ast.Constant(value=k_) if k_ < star else ast.UnaryOp(op=ast.USub(), operand=ast.Constant(value=n_el - k_))
                                    d[x_.id] = ast.copy_location(ast.Subscript(value=copy.deepcopy(st.value), slice=ix_, ctx=ast.Load()), st.value)
                        else:
                            for x_ in ast.walk(t):
                                if isinstance(x_, ast.Name) and isinstance(x_.ctx, ast.Store):
                                    d[x_.id] = None
                elif isinstance(st, ast.AnnAssign):
                    if isinstance(st.target, ast.Name) and st.value is not None:
                        d[st.target.id] = st.value
                elif isinstance(st, ast.AugAssign):
                    if isinstance(st.target, ast.Name):
                        d[st.target.id] = None
                elif isinstance(st, (ast.Import, ast.ImportFrom)):
                    for al in st.names:
                        d[(al.asname or al.name).split(".")[0]] = None
                elif isinstance(st, ast.Delete):
                    for t in st.targets:
                        if isinstance(t, ast.Name):
                            d[t.id] = None
                roots = [st]
            elif n.kind == "for" and n.stmt is not None:
                for x_ in ast.walk(n.stmt.target):
                    if isinstance(x_, ast.Name):
                        d[x_.id] = None
            elif n.kind == "with" and n.stmt is not None:
                for it in n.stmt.items:
                    if it.optional_vars is not None:
                        for x_ in ast.walk(it.optional_vars):
                            if isinstance(x_, ast.Name):
                                d[x_.id] = None
                        # `with open(..) as fh`: a file object enters as itself, fh names the open(..) value
                        if isinstance(it.optional_vars, ast.Name) and isinstance(it.context_expr, ast.Call) and isinstance(it.context_expr.func, ast.Name) and it.context_expr.func.id == "open":
                            d[it.optional_vars.id] = it.context_expr
            elif n.kind == "except" and n.stmt is not None and getattr(n.stmt, "name", None):
                d[n.stmt.name] = None
            elif n.kind == "def" and n.stmt is not None:
                d[n.stmt.name] = None
            elif n.kind == "test":
                roots = list(n.exprs)
            for r in roots:
                for x_ in walk_local(r):
                    if isinstance(x_, ast.NamedExpr) and isinstance(x_.target, ast.Name):
                        d[x_.target.id] = x_.value
            if d:
                gen[n.idx] = d
        params = set(self.fi.params) if hasattr(self.fi, "params") else set()
        IN: Dict[int, Dict[str, frozenset]] = {n.idx: {} for n in g.nodes}
        OUT: Dict[int, Dict[str, frozenset]] = {n.idx: {} for n in g.nodes}
        OUT[g.entry] = {p_: frozenset([g.entry]) for p_ in params}
        work = [n.idx for n in g.nodes]
        preds = g.pred
        while work:
            a = work.pop()
            if a != g.entry:
                inn: Dict[str, frozenset] = {}
                for p_ in preds.get(a, []):
                    for k, v in OUT[p_].items():
                        inn[k] = inn.get(k, frozenset()) | v
                IN[a] = inn
                out = dict(inn)
                for k in gen.get(a, {}):
                    out[k] = frozenset([a])
            else:
                out = OUT[g.entry]
            if out != OUT[a] or a == g.entry:
                changed = out != OUT[a]
                OUT[a] = out
                if changed or a == g.entry:
                    for b, _ in g.succ[a]:
                        if b not in work:
                            work.append(b)
        self._rdin = IN
        self._rdgen = gen
        self._params = params
        mut = set()
        for n_ in walk_local(self.node):
            if isinstance(n_, ast.Attribute) and isinstance(n_.ctx, (ast.Store, ast.Del)) and isinstance(n_.value, ast.Name):
                mut.add(n_.value.id)
        self._mutated = mut | M._returned_and_written(self.node)
        return IN

    def _closure_defs(self) -> Dict[str, ast.AST]:
        if getattr(self, "_cdefs", None) is None:
            self._cdefs = {}
            par = getattr(self.fi, "parent", None)
            own = set(self.fi.params) | {n_.id for n_ in walk_local(self.node) if isinstance(n_, ast.Name) and isinstance(n_.ctx, (ast.Store, ast.Del))}
            while par is not None:
                for k, v in M.single_defs(par.node).items():
                    if k not in own and k not in self._cdefs:
                        self._cdefs[k] = M.expand(par.node, v)
                par = getattr(par, "parent", None)
        return self._cdefs

    def xe_at(self, idx: int, e: ast.AST, depth: int = 6) -> ast.AST:
        """e with every local whose *unique reaching definition at node idx* is a plain assignment replaced by the
        (recursively expanded) assigned expression; parameters, loop/with targets, objects under construction
        (x.a = ..) and fresh accumulators are kept as names."""
        IN = self._rd()
        gen = self._rdgen
        outer = self

        class T(ast.NodeTransformer):
            def __init__(self, at, depth):
                self.at = at
                self.depth = depth

            def visit_Name(self, node):
                if not isinstance(node.ctx, ast.Load) or self.depth <= 0:
                    return node
                if node.id in outer._params or node.id in outer._mutated:
                    return node
                rd = IN.get(self.at, {}).get(node.id)
                if not rd and node.id in outer._closure_defs():
                    # a free variable of a nested function: the enclosing function's single definition
                    return ast.copy_location(copy.deepcopy(outer._closure_defs()[node.id]), node)
                if not rd or len(rd) != 1:
                    return node
                dn = next(iter(rd))
                val = gen.get(dn, {}).get(node.id)
                if val is None or M._is_fresh_container(val, outer.node, node.id):
                    return node
                r = T(dn, self.depth - 1).visit(copy.deepcopy(val))
                return ast.copy_location(r, node)

            def visit_NamedExpr(self, node):
                return self.visit(node.value)

            def visit_Lambda(self, node):
                return node

            def _comp(self, node):
                bound = {x_.id for g_ in node.generators for x_ in ast.walk(g_.target) if isinstance(x_, ast.Name)}
                saved = outer._params
                outer._params = saved | bound  # names bound by the comprehension are not locals of the function
                try:
                    return self.generic_visit(node)
                finally:
                    outer._params = saved

            visit_ListComp = visit_SetComp = visit_DictComp = visit_GeneratorExp = _comp

        return ast.fix_missing_locations(M.canon_idioms(T(idx, depth).visit(copy.deepcopy(e))))

    def alias_root(self, idx: int, e: ast.AST) -> str:
        """follow `a = b` chains (unique reaching definitions that are plain names) from the name used at node idx"""
        IN = self._rd()
        cur, at, seen = e, idx, 0
        while isinstance(cur, ast.Name) and seen < 8:
            rd = IN.get(at, {}).get(cur.id)
            if not rd or len(rd) != 1 or cur.id in self._params:
                break
            dn = next(iter(rd))
            val = self._rdgen.get(dn, {}).get(cur.id)
            if not isinstance(val, ast.Name):
                break
            cur, at, seen = val, dn, seen + 1
        return norm(cur)

    def x_at(self, idx: int, e: ast.AST) -> str:
        return norm(self.xe_at(idx, e))

    # ------------------------------------------------------------------ text
    def x(self, e: ast.AST) -> str:
        """normalised text of e with single-definition locals expanded"""
        return M.xtext(self.node, e)

    def xe(self, e: ast.AST) -> ast.AST:
        return M.expand(self.node, e)

    def xstmt(self, st: ast.AST) -> ast.AST:
        k = id(st)
        if k not in self._xs:
            defs = M.cached_defs(self.node)
            self._xs[k] = ast.fix_missing_locations(M._Subst(defs, 6).visit(copy.deepcopy(st))) if defs else st
        return self._xs[k]

    # ------------------------------------------------------------------ conditions
    def tests(self, *patterns) -> List[Edge]:
        """(test node, label on which the pattern holds) for atoms matching any of the patterns"""
        out: List[Edge] = []
        for p in patterns:
            for e in M.find_tests(self.g, self.node, p, expander=self.xe_at):
                if e not in out:
                    out.append(e)
        return out

    def neg(self, edges: Iterable[Edge]) -> List[Edge]:
        return [(t, "F" if lab == "T" else "T") for t, lab in edges]

    def test_nodes(self, edges: Iterable[Edge]) -> List[int]:
        return sorted({t for t, _ in edges})

    def heads(self, edges: Iterable[Edge]) -> List[int]:
        """first nodes reached through the given out-edges"""
        return [b for t, lab in edges for b, l in self.g.succ[t] if l == lab]

    def refuses(self, edges: Sequence[Edge]) -> bool:
        """each of the given out-edges leads only to abnormal exits (raise), never to the normal exit"""
        g = self.g
        if not edges:
            return False
        for e in edges:
            hs = self.heads([e])
            if not hs or g.exit in hs or g.exit in g.reach_consistent([], start_edges=[e]):
                return False
        return True

    def refuses_when(self, literals: Sequence[Sequence[str]], src_edge: Optional[Edge] = None, targets: Optional[Iterable[int]] = None) -> Optional[bool]:
        """No node of `targets` (default: the normal exit) is reachable on a path consistent with ALL the given
        literals (each literal is a list of alternative spellings, polarity as written), starting at the function
        entry or after `src_edge`.  None: some literal is not tested anywhere."""
        blocked: List[Edge] = []
        for alts in literals:
            true_edges = self.tests(*alts)
            if not true_edges:
                return None
            blocked += self.neg(true_edges)
        g = self.g
        tg = set(targets) if targets is not None else {g.exit}
        if src_edge is not None:
            r = g.reach_consistent([], labels_block=blocked, start_edges=[src_edge])
        else:
            r = g.reach_consistent([g.entry], labels_block=blocked)
        return not (r & tg)

    def reaches(self, edges: Sequence[Edge], nodes: Iterable[int]) -> bool:
        """some node of `nodes` is reachable after taking one of the out-edges"""
        hs = self.heads(edges)
        r = self.g.reach(hs) | set(hs)
        return bool(r & set(nodes))

    # ------------------------------------------------------------------ statements / calls
    def stmts(self, *patterns, kinds=("stmt",)) -> List[int]:
        """stmt nodes whose statement matches one of the (statement) patterns, as written or local-expanded"""
        out = []
        pats = [M.pat(p) if isinstance(p, str) else p for p in patterns]
        for n in self.g.nodes:
            if n.kind not in kinds or n.stmt is None:
                continue
            for p in pats:
                if M.match(p, n.stmt) is not None or M.match(p, self.xe_at(n.idx, n.stmt)) is not None:
                    out.append(n.idx)
                    break
        return out

    def calls(self, *patterns) -> List[int]:
        """CFG nodes evaluating a call that matches one of the patterns (as written or local-expanded)"""
        out = []
        pats = [M.pat(p) if isinstance(p, str) else p for p in patterns]
        for n in self.g.nodes:
            hit = False
            for e in n.exprs:
                if e is None or hit:
                    continue
                for root in (e, self.xe_at(n.idx, e)):
                    for c in walk_local(root):
                        if isinstance(c, ast.Call) and any(M.match(p, c) is not None for p in pats):
                            hit = True
                            break
                    if hit:
                        break
            if hit:
                out.append(n.idx)
        return out

    def call_sites(self, pattern) -> List[Tuple[int, ast.Call, dict]]:
        """(node, call as written-or-expanded, bindings) of calls matching the pattern"""
        p = M.pat(pattern) if isinstance(pattern, str) else pattern
        out = []
        for n in self.g.nodes:
            raw_hits, exp_hits = [], []
            for e in n.exprs:
                if e is None:
                    continue
                for c in walk_local(e):
                    if isinstance(c, ast.Call):
                        b = M.match(p, c)
                        if b is not None:
                            raw_hits.append((n.idx, c, b))
                if not raw_hits:
                    seen = set()
                    for c in walk_local(self.xe_at(n.idx, e)):
                        if isinstance(c, ast.Call):
                            b = M.match(p, c)
                            if b is not None and norm(c) not in seen:
                                seen.add(norm(c))
                                exp_hits.append((n.idx, c, b))
            out += raw_hits or exp_hits
        return out

    def stores(self, target_pattern) -> List[Tuple[int, ast.AST, dict]]:
        """(node, value, bindings) of assignments one of whose targets matches the pattern (expanded)"""
        p = M.pat(target_pattern) if isinstance(target_pattern, str) else target_pattern
        out = []
        for n in self.g.nodes:
            st = n.stmt
            if n.kind != "stmt" or not isinstance(st, (ast.Assign, ast.AnnAssign, ast.AugAssign)):
                continue
            xs = self.xe_at(n.idx, st)
            for s in (st, xs):
                tg = s.targets if isinstance(s, ast.Assign) else [s.target]
                hit = None
                for t in tg:
                    b = M.match(p, t)
                    if b is not None:
                        hit = b
                        break
                if hit is not None:
                    out.append((n.idx, xs.value, hit))
                    break
        return out

    def deletes(self, target_pattern) -> List[int]:
        p = M.pat(target_pattern) if isinstance(target_pattern, str) else target_pattern
        out = []
        for n in self.g.nodes:
            if n.kind == "stmt" and isinstance(n.stmt, ast.Delete):
                for s in (n.stmt, self.xe_at(n.idx, n.stmt)):
                    if any(M.match(p, t) is not None for t in s.targets):
                        out.append(n.idx)
                        break
        return out

    def returns(self) -> List[Tuple[int, Optional[ast.AST]]]:
        return [(n.idx, n.stmt.value) for n in self.g.nodes if n.kind == "stmt" and isinstance(n.stmt, ast.Return)]

    def return_texts(self) -> List[str]:
        return sorted(self.x(v) if v is not None else "None" for _, v in self.returns())

    def raises(self) -> List[int]:
        return [n.idx for n in self.g.nodes if n.kind == "stmt" and isinstance(n.stmt, ast.Raise)]

    # ------------------------------------------------------------------ placement
    def hit_before(self, dst: int, nodes: Iterable[int] = (), edges: Iterable[Edge] = (), src: Optional[int] = None, src_edge: Optional[Edge] = None) -> bool:
        """every path from src (default entry; or from the head of src_edge) to dst passes one of `nodes` or
        takes one of `edges`"""
        g = self.g
        nodes = set(nodes)
        if dst in nodes:
            return True
        if src_edge is not None:
            hs = [h for h in self.heads([src_edge]) if h not in nodes]
            if dst in hs:
                return False
            return dst not in g.reach_consistent([], avoid=nodes, labels_block=list(edges), start_edges=[src_edge])
        starts = [g.entry if src is None else src]
        return dst not in g.reach_consistent(starts, avoid=nodes, labels_block=list(edges))

    def all_hit_before(self, dsts: Iterable[int], nodes: Iterable[int] = (), edges: Iterable[Edge] = (), **kw) -> bool:
        dsts = list(dsts)
        nodes = list(nodes)
        edges = list(edges)
        return bool(dsts) and all(self.hit_before(d, nodes, edges, **kw) for d in dsts)

    def only_under(self, dst: int, edges: Sequence[Edge]) -> bool:
        """dst is reached only after taking ALL of... no: after taking one of the given edges (control dependence)"""
        return self.hit_before(dst, edges=edges)

    def under_all(self, dst: int, edge_groups: Sequence[Sequence[Edge]]) -> bool:
        """dst is reached only on paths that took an edge of every group (conjunction of conditions)"""
        return all(bool(gr) and self.hit_before(dst, edges=gr) for gr in edge_groups)

    def value_paths(self, limit: int = 512, sink=None):
        """All acyclic entry->return paths as (literals, returned expression, node).  Values are *path sensitive*: every
        local is replaced by what was assigned to it on this very path (conditional expressions fork the path), so
        `x = a if c else b; return f(x)` and `if c: x = a else: x = b; return f(x)` give the same two paths.
        literals: (positive atom text, truth taken).  With `sink` (a predicate on CFG nodes) paths end at the first sink
        node instead and the value is that node's statement.  Raises ValueError on loops or too many paths."""
        g = self.g
        if any(n.kind in ("for", "loop") for n in g.nodes):
            raise ValueError("function has loops")
        self._rd()
        keep = set(self._mutated)  # (a re-bound parameter is a local from there on; before that it reads as itself)
        out = []

        class Sub(ast.NodeTransformer):
            def __init__(self, env):
                self.env = env

            def visit_Name(self, node):
                if isinstance(node.ctx, ast.Load) and node.id in self.env:
                    return copy.deepcopy(self.env[node.id])
                return node

            def visit_NamedExpr(self, node):
                return self.visit(node.value)

            def visit_Lambda(self, node):
                return node

        def subst(e, env):
            return ast.fix_missing_locations(Sub(env).visit(copy.deepcopy(e))) if env else e

        def add_lit(lits, key, truth):
            if any(k == key and tv != truth for k, tv in lits):
                return None
            return lits if any(k == key for k, tv in lits) else lits + [(key, truth)]

        def forks(e, lits, final=False):
            """[(literals, expression)] with conditional expressions resolved: at the top of an assigned value, and -- for
            the final (returned) value -- wherever they occur inside it (outside lambdas / comprehensions)"""
            if isinstance(e, ast.IfExp):
                a, neg = M.polarity(e.test)
                key = norm(a)
                res = []
                for branch, tv in ((e.body, not neg), (e.orelse, neg)):
                    l2 = add_lit(lits, key, tv)
                    if l2 is not None:
                        res += forks(branch, l2, final)
                return res
            if isinstance(e, ast.Call) and norm(e.func) == "cast" and len(e.args) == 2 and isinstance(e.args[1], ast.IfExp):
                return forks(e.args[1], lits, final)
            if final:
                inner = next((x for x in walk_local(e) if isinstance(x, ast.IfExp)), None)
                if inner is not None:
                    a, neg = M.polarity(inner.test)
                    key = norm(a)
                    res = []
                    for branch, tv in ((inner.body, not neg), (inner.orelse, neg)):
                        l2 = add_lit(lits, key, tv)
                        if l2 is None:
                            continue

                        class Rep(ast.NodeTransformer):
                            def visit_IfExp(self, node):
                                if norm(node) == norm(inner):
                                    return copy.deepcopy(branch)
                                return self.generic_visit(node)

                        res += forks(Rep().visit(copy.deepcopy(e)), l2, True)
                        if len(res) > limit:
                            raise ValueError("too many paths")
                    return res
            return [(lits, e)]

        def dfs(n, lits, seen, env):
            if len(out) > limit:
                raise ValueError("too many paths")
            node = g.nodes[n]
            if n in seen:
                raise ValueError("cycle")
            if sink is not None and sink(node):
                out.append((list(lits), subst(node.stmt, env) if node.stmt is not None else None, n))
                return
            if node.kind == "stmt" and isinstance(node.stmt, ast.Return):
                rv_ = node.stmt.value
                v = subst(rv_, env) if rv_ is not None else ast.Constant(value=None)
                for l2, e2 in forks(v, list(lits), final=True):
                    out.append((l2, e2, n))
                return
            if n == g.exit:
                out.append((list(lits), ast.Constant(value=None), n))
                return
            if n == g.raise_exit:
                return
            # `(v := e)` anywhere in the node binds v for the rest of the path
            for e_ in node.exprs:
                if e_ is None:
                    continue
                for w in walk_local(e_):
                    if isinstance(w, ast.NamedExpr) and isinstance(w.target, ast.Name) and w.target.id not in keep:
                        env = dict(env)
                        env[w.target.id] = subst(w.value, env)
            states = [(lits, env)]
            if node.kind == "stmt" and isinstance(node.stmt, (ast.Assign, ast.AnnAssign)) and node.stmt.value is not None:
                tg = node.stmt.targets if isinstance(node.stmt, ast.Assign) else [node.stmt.target]
                if len(tg) == 1 and isinstance(tg[0], ast.Name) and tg[0].id not in keep and not M._is_fresh_container(node.stmt.value, self.node, tg[0].id):
                    val = subst(node.stmt.value, env)
                    states = []
                    for l2, e2 in forks(val, list(lits)):
                        env2 = dict(env)
                        env2[tg[0].id] = e2
                        states.append((l2, env2))
                elif len(tg) == 1 and isinstance(tg[0], ast.Tuple) and isinstance(node.stmt.value, ast.Tuple) and len(tg[0].elts) == len(node.stmt.value.elts):
                    env2 = dict(env)
                    for t_, v_ in zip(tg[0].elts, node.stmt.value.elts):
                        if isinstance(t_, ast.Name) and t_.id not in keep:
                            env2[t_.id] = subst(v_, env)
                    states = [(lits, env2)]
                elif len(tg) == 1 and isinstance(tg[0], ast.Name):
                    env2 = dict(env)
                    env2.pop(tg[0].id, None)
                    states = [(lits, env2)]
            for lits_, env_ in states:
                for b, lab in g.succ[n]:
                    if lab in ("exc", "assert"):
                        continue
                    l2 = lits_
                    if node.kind == "test" and lab in ("T", "F"):
                        a, neg = M.polarity(subst(node.exprs[0], env_))
                        key = norm(a)
                        truth = (lab == "T") != neg
                        l2 = add_lit(lits_, key, truth)
                        if l2 is None:
                            continue  # contradicts an earlier outcome of the same atom
                    dfs(b, l2, seen | {n}, env_)

        dfs(g.entry, [], frozenset(), {})
        return out

    def result_formula(self, limit: int = 128) -> Optional[ast.AST]:
        """The boolean result of a loop-free predicate as ONE condition: OR over its return paths of (conditions on the path
        AND returned expression), constants folded.  `if a: return True; return b`  gives  `a or (not a and b)`.
        None when a path returns nothing / the function has loops."""
        try:
            vp = self.value_paths(limit)
        except ValueError:
            return None
        terms = []
        for lits, v, n_ in vp:
            if isinstance(v, ast.Constant) and v.value is None:
                return None
            parts = [ast.parse(k, mode="eval").body if tv else ast.UnaryOp(op=ast.Not(), operand=ast.parse(k, mode="eval").body) for k, tv in lits]
            if isinstance(v, ast.Constant) and v.value is False:
                continue
            if not (isinstance(v, ast.Constant) and v.value is True):
                parts.append(M.canon_idioms(M.canon_strings(copy.deepcopy(v))))
            if not parts:
                return ast.Constant(value=True)
            terms.append(parts[0] if len(parts) == 1 else ast.BoolOp(op=ast.And(), values=parts))
        if not terms:
            return ast.Constant(value=False)
        return ast.fix_missing_locations(terms[0] if len(terms) == 1 else ast.BoolOp(op=ast.Or(), values=terms))

    def decision_mismatches(self, spec, limit: int = 512):
        """Compare the function with a decision table: `spec(d)` maps the outcomes of the atoms on a path (d: atom text ->
        bool, locals expanded) to the text of the value that must be returned on that path, or None when the path says too
        little to decide.  Returns [(literals, got, want)] for paths that disagree -- independent of how the conditions are
        nested, ordered or spelled as statements / conditional expressions.  Raises ValueError on loops."""
        bad = []
        self.undecided_paths = 0
        for lits, v, n_ in self.value_paths(limit):
            d = dict(lits)
            want = spec(d)
            got = norm(v)
            if want is None:
                # the conditions on this path are spelled in a way the table does not know: no verdict for this path
                self.undecided_paths += 1
                continue
            if (got in want.texts) if isinstance(want, Not) else got != want if isinstance(want, str) else got not in want:
                bad.append((lits, got, want))
        return bad

    def node_paths(self, limit: int = 512):
        """All acyclic entry -> exit/return paths of a loop-free function: (literals, statements on the path in order)."""
        g = self.g
        out = []

        def dfs(n, lits, path):
            if len(out) > limit:
                raise ValueError("too many paths")
            if n == g.raise_exit:
                return
            if n == g.exit:
                out.append((list(lits), [g.nodes[i].stmt for i in path if g.nodes[i].kind == "stmt" and g.nodes[i].stmt is not None]))
                return
            if n in path:
                raise ValueError("cycle")
            node = g.nodes[n]
            for b, lab in g.succ[n]:
                if lab in ("exc", "assert"):
                    continue
                l2 = lits
                if node.kind == "test" and lab in ("T", "F"):
                    a, neg = M.polarity(node.exprs[0])
                    key = norm(a)
                    truth = (lab == "T") != neg
                    if any(k == key and tv != truth for k, tv in lits):
                        continue
                    if not any(k == key for k, tv in lits):
                        l2 = lits + [(key, truth)]
                dfs(b, l2, path + [n])

        dfs(g.entry, [], [])
        return out

    def region_paths(self, start_edge: Edge, stops: Iterable[int], limit: int = 512):
        """Acyclic paths that start by taking `start_edge` and end when they reach a node of `stops` (or an exit):
        (literals, nodes on the path, end node); literals are (positive atom text with locals expanded, truth)."""
        g = self.g
        stops = set(stops) | {g.exit, g.raise_exit}
        out = []

        def dfs(n, lits, path):
            if len(out) > limit:
                raise ValueError("too many paths")
            if n in stops:
                out.append((list(lits), list(path), n))
                return
            if n in path:
                return  # inner cycle: ignore (inner loops are summarised by their own iteration)
            node = g.nodes[n]
            for b, lab in g.succ[n]:
                if lab in ("exc", "assert"):
                    continue
                l2 = lits
                if node.kind == "test" and lab in ("T", "F"):
                    a, neg = M.polarity(self.xe_at(n, node.exprs[0]))
                    key = norm(a)
                    truth = (lab == "T") != neg
                    if any(k == key and tv != truth for k, tv in lits):
                        continue
                    if not any(k == key for k, tv in lits):
                        l2 = lits + [(key, truth)]
                dfs(b, l2, path + [n])

        for h in self.heads([start_edge]):
            dfs(h, [], [])
        return out

    def condition_of(self, start_edge: Edge, stops: Iterable[int], through: Iterable[int]) -> ast.AST:
        """The condition (as an expression over the atoms tested on the way) under which a path from start_edge to
        `stops` passes one of the nodes `through`: the disjunction of the literal sets of those paths."""
        through = set(through)
        terms = []
        paths = self.region_paths(start_edge, stops)
        normal = [(lits, nodes, end) for lits, nodes, end in paths if end != self.g.raise_exit]
        if normal and all(through & set(nodes) for lits, nodes, end in normal):
            return ast.Constant(value=True)  # every iteration that does not raise passes: guards that raise are not a filter
        for lits, nodes, end in paths:
            if through & set(nodes):
                parts = [M.pat(k) if tv else ast.UnaryOp(op=ast.Not(), operand=M.pat(k)) for k, tv in lits]
                terms.append(ast.Constant(value=True) if not parts else parts[0] if len(parts) == 1 else ast.BoolOp(op=ast.And(), values=parts))
        if not terms:
            return ast.Constant(value=False)
        return terms[0] if len(terms) == 1 else ast.BoolOp(op=ast.Or(), values=terms)

    @staticmethod
    def _iter_of_map(it: ast.AST):
        """iteration expression over a mapping -> (mapping expr, 'items' | 'keys', sorted?) or None.
        Accepts D.items(), sorted(D.items()[, key=..]), D, D.keys(), sorted(D), list(..) around any of them."""
        is_sorted = False
        while isinstance(it, ast.Call) and isinstance(it.func, ast.Name) and it.func.id in ("sorted", "list", "tuple") and it.args:
            is_sorted = is_sorted or it.func.id == "sorted"
            it = it.args[0]
        if isinstance(it, ast.Call) and isinstance(it.func, ast.Attribute) and it.func.attr in ("items", "keys") and not it.args:
            return it.func.value, it.func.attr, is_sorted
        if isinstance(it, (ast.Name, ast.Attribute)):
            return it, "keys", is_sorted
        return None

    def dict_filter(self, value: ast.AST):
        """Recognise `value` as a filtered copy of a mapping D, in comprehension or loop form, iterating the items or the
        keys of D:  {k: v for k, v in D.items() if C} | {k: D[k] for k in sorted(D) if C} | R = {}; for ..: if C: R[k] = v.
        Returns {map (text of D), src (iteration text), key, val (name standing for D[key]), kept (condition AST, D[key]
        spelled as val), sorted, nodes} or None."""
        g = self.g

        class Sub(ast.NodeTransformer):
            def __init__(self, d_txt, k, v):
                self.d_txt, self.k, self.v = d_txt, k, v

            def visit_Subscript(self, node):
                if norm(node.value) == self.d_txt and norm(node.slice) == self.k:
                    return ast.copy_location(ast.Name(id=self.v, ctx=ast.Load()), node)
                return self.generic_visit(node)

        def shape(target, it):
            im = self._iter_of_map(it)
            if im is None:
                return None
            d, how, is_sorted = im
            d_txt = norm(d)
            if how == "items" and isinstance(target, ast.Tuple) and len(target.elts) == 2 and all(isinstance(x, ast.Name) for x in target.elts):
                return d_txt, target.elts[0].id, target.elts[1].id, is_sorted, False
            if how == "keys" and isinstance(target, ast.Name):
                return d_txt, target.id, "V__", is_sorted, True
            return None

        v = value
        if isinstance(v, ast.Name):
            ev = self.xe(v)
            if isinstance(ev, ast.DictComp):
                v = ev
        if isinstance(v, ast.DictComp) and len(v.generators) == 1:
            gen = v.generators[0]
            sh = shape(gen.target, gen.iter)
            if sh is None:
                return None
            d_txt, kk, vv, is_sorted, by_key = sh
            val = Sub(d_txt, kk, vv).visit(copy.deepcopy(v.value)) if by_key else v.value
            if norm(v.key) != kk or norm(val) != vv:
                return None
            conds = [c for i in gen.ifs for c in M.conjuncts(Sub(d_txt, kk, vv).visit(copy.deepcopy(i)) if by_key else i)]
            kept = ast.BoolOp(op=ast.And(), values=conds) if len(conds) > 1 else conds[0] if conds else ast.Constant(value=True)
            return {"map": d_txt, "src": self.x(gen.iter), "key": kk, "val": vv, "kept": kept, "sorted": is_sorted, "nodes": []}
        if isinstance(v, ast.Name):
            for n in g.nodes:
                if n.kind != "for":
                    continue
                sh = shape(n.stmt.target, n.stmt.iter)
                if sh is None:
                    continue
                d_txt, kk, vv, is_sorted, by_key = sh
                if d_txt == v.id:
                    continue
                sts = [i for i, val, b in self.stores(f"{v.id}[{kk}]") if (norm(g.nodes[i].stmt.value) == f"{d_txt}[{kk}]" if by_key else norm(g.nodes[i].stmt.value) == vv)]
                others = [i for i, val, b in self.stores(f"{v.id}[__k]") if i not in sts]
                if sts and not others:
                    kept = self.condition_of((n.idx, "iter"), [n.idx], sts)
                    if by_key:
                        kept = Sub(d_txt, kk, vv).visit(kept)
                    return {"map": d_txt, "src": self.x(n.stmt.iter), "key": kk, "val": vv, "kept": kept, "sorted": is_sorted, "nodes": sts, "loop": n}
        return None

    def dict_build(self, value: ast.AST, _depth: int = 0):
        """How a dict value is put together, whatever the spelling (literal, `**{..}`, comprehension, `d = {}` filled by
        constant-key stores, loops and `update`).  Returns {"const": {key text: value AST (local-expanded)},
        "families": [{src, key, val, kept}]} where a family is "for the items of src: key -> val if kept" with the loop
        variables renamed V0, V1, ..; or None when some part is not understood."""
        if _depth > 4:
            return None
        g = self.g
        out = {"const": {}, "families": []}

        def canon_family(target, key, val, kept, src_txt):
            names = [x.id for x in (target.elts if isinstance(target, ast.Tuple) else [target]) if isinstance(x, ast.Name)]
            if len(names) != (len(target.elts) if isinstance(target, ast.Tuple) else 1):
                return None
            ren = {n_: f"V{i}" for i, n_ in enumerate(names)}

            class R(ast.NodeTransformer):
                def visit_Name(self, node):
                    return ast.copy_location(ast.Name(id=ren.get(node.id, node.id), ctx=node.ctx), node)

            def r(e):
                return R().visit(copy.deepcopy(e))

            return {"src": src_txt, "key": norm(r(key)), "val": norm(r(val)), "kept": r(kept)}

        def merge(o):
            if o is None:
                return False
            out["const"].update(o["const"])
            out["families"] += o["families"]
            return True

        v = value
        if isinstance(v, ast.Dict):
            for k, x in zip(v.keys, v.values):
                if k is None:
                    if not merge(self.dict_build(x, _depth + 1)):
                        return None
                elif isinstance(k, ast.Constant):
                    out["const"][repr(k.value)] = self.xe(x)
                else:
                    return None
            return out
        if isinstance(v, ast.DictComp) and len(v.generators) == 1:
            gen = v.generators[0]
            conds = [c for i in gen.ifs for c in M.conjuncts(i)]
            kept = ast.BoolOp(op=ast.And(), values=conds) if len(conds) > 1 else conds[0] if conds else ast.Constant(value=True)
            fam = canon_family(gen.target, v.key, v.value, kept, self.x(gen.iter))
            if fam is None:
                return None
            out["families"].append(fam)
            return out
        if isinstance(v, ast.Call) and isinstance(v.func, ast.Name) and v.func.id == "dict" and not v.args:
            for k in v.keywords:
                if k.arg is None:
                    if not merge(self.dict_build(k.value, _depth + 1)):
                        return None
                else:
                    out["const"][repr(k.arg)] = self.xe(k.value)
            return out
        if isinstance(v, ast.Name):
            inits = [(i, g.nodes[i].stmt.value) for i, val, b in self.stores(v.id)]
            if len(inits) != 1:
                ev = self.xe(v)
                return self.dict_build(ev, _depth + 1) if not isinstance(ev, ast.Name) else None
            if not merge(self.dict_build(inits[0][1], _depth + 1)):
                return None
            parts = []  # (node index, part) in program order: a dict remembers the first insertion position of a key
            for i, val, b in self.stores(f"{v.id}[__k]"):
                st = g.nodes[i].stmt
                k = b["__k"]
                loop = next((n for n in g.nodes if n.kind == "for" and any(x is st for b_ in n.stmt.body for x in ast.walk(b_))), None)
                if loop is None:
                    if not isinstance(k, ast.Constant) or not self.hit_before(g.exit, nodes=[i], src=inits[0][0]):
                        return None
                    parts.append((i, {"const": {repr(k.value): self.xe_at(i, st.value)}, "families": []}))
                else:
                    kept = self.condition_of((loop.idx, "iter"), [loop.idx], [i])
                    fam = canon_family(loop.stmt.target, k, st.value, kept, self.x(loop.stmt.iter))
                    if fam is None:
                        return None
                    fam["nodes"], fam["loop"] = [i], loop.idx
                    parts.append((i, {"const": {}, "families": [fam]}))
            for i, c, b in self.call_sites(f"{v.id}.update(__o)"):
                o = self.dict_build(b["__o"], _depth + 1)
                if not self.hit_before(g.exit, nodes=[i], src=inits[0][0]) or o is None:
                    return None
                parts.append((i, o))
            for i, o in sorted(parts, key=lambda t: t[0]):
                merge(o)
            others = [i for m_ in ("pop", "popitem", "clear", "setdefault", "__delitem__") for i, c, b in self.call_sites(f"{v.id}.{m_}(___)")] + self.deletes(f"{v.id}[__k]")
            if others:
                return None
            return out
        return None

    def set_build(self, value: ast.AST):
        """Recognise a set as {x in SRC | COND(x)}: a set comprehension over the items / elements of SRC, possibly
        intersected with the key set of a mapping M (`set(M.keys()).intersection(S)`, `S & set(M)`), which adds the
        conjunct `x in M`.  Returns {src, kept (condition AST over V0[, V1])} or None."""
        v = self.xe(value) if isinstance(value, ast.Name) else value

        def comp(e):
            e = self.xe(e) if isinstance(e, ast.Name) else e
            if isinstance(e, ast.SetComp) and len(e.generators) == 1:
                gen = e.generators[0]
                names = [x.id for x in (gen.target.elts if isinstance(gen.target, ast.Tuple) else [gen.target]) if isinstance(x, ast.Name)]
                if not names or norm(e.elt) != names[0]:
                    return None
                ren = {n_: f"V{i}" for i, n_ in enumerate(names)}

                class R(ast.NodeTransformer):
                    def visit_Name(self, node):
                        return ast.copy_location(ast.Name(id=ren.get(node.id, node.id), ctx=node.ctx), node)

                conds = [R().visit(copy.deepcopy(self.xe(c))) for i in gen.ifs for c in M.conjuncts(i)]
                return self.x(gen.iter), conds
            return None

        def keyset(e):
            e = M.canon_collections(self.xe(e))
            return norm(e) if isinstance(e, (ast.Name, ast.Attribute, ast.Call, ast.Subscript)) else None

        sides = None
        if isinstance(v, ast.Call) and isinstance(v.func, ast.Attribute) and v.func.attr == "intersection" and len(v.args) == 1:
            sides = (v.func.value, v.args[0])
        elif isinstance(v, ast.BinOp) and isinstance(v.op, ast.BitAnd):
            sides = (v.left, v.right)
        if sides is not None:
            for a_, b_ in (sides, sides[::-1]):
                c = comp(a_)
                ks = keyset(b_)
                if c is not None and ks is not None and comp(b_) is None:
                    src, conds = c
                    conds = conds + [M.pat(f"V0 in {ks}")]
                    return {"src": src, "kept": ast.BoolOp(op=ast.And(), values=conds) if len(conds) > 1 else conds[0]}
            return None
        c = comp(v)
        if c is None:
            return None
        src, conds = c
        conds = [M.canon_collections(x) for x in conds]
        kept = ast.BoolOp(op=ast.And(), values=conds) if len(conds) > 1 else conds[0] if conds else ast.Constant(value=True)
        return {"src": src, "kept": kept}

    def list_filter(self, value: ast.AST):
        """Recognise `value` as an order-preserving filtered copy of a sequence: `[x for x in SRC if COND]` or a name built by
        `L = []; for x in SRC: [conditions] L.append(x)`.  Returns {src, var, kept (condition AST), nodes} or None."""
        g = self.g
        v = value
        if isinstance(v, ast.Name):
            ev = self.xe(v)
            if isinstance(ev, ast.ListComp):
                v = ev
        if isinstance(v, ast.ListComp) and len(v.generators) == 1 and isinstance(v.generators[0].target, ast.Name):
            gen = v.generators[0]
            tv = gen.target.id
            if norm(v.elt) != tv:
                return None
            conds = [c for i in gen.ifs for c in M.conjuncts(i)]
            kept = ast.BoolOp(op=ast.And(), values=conds) if len(conds) > 1 else conds[0] if conds else ast.Constant(value=True)
            return {"src": self.x(gen.iter), "var": tv, "kept": kept, "nodes": []}
        if isinstance(v, ast.Name):
            init = [val for i, val, b in self.stores(v.id)]
            if len(init) != 1 or not (isinstance(init[0], ast.List) and not init[0].elts or norm(init[0]) == "list()"):
                return None
            for n in g.nodes:
                if n.kind == "for" and isinstance(n.stmt.target, ast.Name):
                    tv = n.stmt.target.id
                    apps = [i for i, c, b in self.call_sites(f"{v.id}.append({tv})")]
                    others = [i for m_ in ("append", "insert", "extend", "remove", "pop", "sort", "reverse", "clear") for i, c, b in self.call_sites(f"{v.id}.{m_}(___)") if i not in apps]
                    if apps and not others:
                        return {"src": self.x(n.stmt.iter), "var": tv, "kept": self.condition_of((n.idx, "iter"), [n.idx], apps), "nodes": apps}
        return None

    def witness(self, dst: int, nodes: Iterable[int] = (), src: Optional[int] = None) -> List[str]:
        return self.g.path_text(self.g.find_path(dst, avoid=set(nodes), src=src))

    def loc(self, idx: Optional[int] = None) -> str:
        if idx is None:
            return self.fi.loc()
        n = self.g.nodes[idx]
        return f"{self.fi.module.relpath}:{n.lineno}"


def object_writes(f: "F"):
    """Places where an object is written to a file, in either spelling:
         obj.save(path)                                      -> (node, path expr, text of obj, 'save', call)
         with open(path, 'wb') as fh: fh.write(bytes(obj))   -> (node of the write, path expr, text of obj, 'inline', open call)
    (the second is what IH5Manifest.save does; a caller may do it itself).  Texts are local-expanded."""
    out = []
    g = f.g
    for i, c, b in f.call_sites("__o.save(__p)"):
        out.append((i, b["__p"], f.x_at(i, b["__o"]), "save", c))
    for n in g.nodes:
        if n.kind != "with" or n.stmt is None:
            continue
        for it in n.stmt.items:
            m = M.match("open(__p, 'wb')", it.context_expr) or M.match("open(__p, mode='wb')", it.context_expr)
            if m is None or not isinstance(it.optional_vars, ast.Name):
                continue
            fh = it.optional_vars.id
            for i, c, b in f.call_sites(f"{fh}.write(__d)"):
                d = f.xe_at(i, b["__d"])
                m2 = M.match("bytes(__o)", d)
                obj = norm(m2["__o"]) if m2 is not None else norm(d)
                out.append((i, m["__p"], obj, "inline" if m2 is not None else "inline-raw", it.context_expr))
    return out


def fv(ctx, P, qual: str) -> F:
    return F(ctx, P.func(qual))
