"""C11 — A crash while patching never damages what was committed.

R1: byte identity of committed containers at *every* crash point follows from ownership: the only files
    ever open for writing are the newest uncommitted container and files created in the same call
    (all C02 rules are re-run here).
R2: commit protocol ordering and recognisability of an interrupted patch.
Not decided: torn-write acceptance (which prefixes of the user block still parse) — a statement about bytes.
"""
from __future__ import annotations

import ast

from mdsa.astutil import call_attr, kwarg, local_calls, norm, store_targets
from mdsa.cfg import walk_local
from mdsa.loader import AnalysisError, dotted

from . import c02
from mdsa import match as MM

from .sem import F
from .common import Ctx, calls_named, fs_sinks, index_kind, local_defs, node_of

EXPLANATION = (
    "R1 (all crash points): a killed process can only damage files it holds open for writing; the C02 ownership rules "
    "(re-run in this check) show committed containers are only ever opened 'r'. R2: in commit_patch the order "
    "close < hash(payload, skip user block) < store hash < single user-block save < reopen 'r' holds on every path; "
    "IH5UserBlock.save opens without truncation and writes seek(0), data, NUL in this order; a fresh user block never "
    "carries a payload hash and _new_container saves exactly that block, so an interrupted patch is recognisable by "
    "hdf5_hashsum is None, which is the test _open uses; IH5MFRecord writes the manifest only after the container commit succeeded."
)
NOT_DECIDED = "torn-write clause (acceptance of spliced user-block prefixes) and the acceptance behaviour of the resulting file sets at run time"


def run(P, rep, tier):
    rep.explanation = EXPLANATION
    rep.not_decided = NOT_DECIDED
    rep.assumptions = c02.ASSUMPTIONS + ["a process kill cannot modify a file the process has open read-only"]
    ctx = Ctx(P)
    rep.attempt(c02.r1_sinks, P, rep, ctx, whole_package=False)
    rep.attempt(c02.r1b_open_rplus, P, rep, ctx)
    rep.attempt(c02.r2_provenance, P, rep, ctx)
    rep.attempt(c02.r3_typestate, P, rep, ctx)
    rep.attempt(c02.r4_overlay_writes, P, rep, ctx)
    if tier == "thorough":
        rep.attempt(c02.r1_sinks, P, rep, ctx, whole_package=True)
    rep.attempt(r2_commit_order, P, rep, ctx)
    rep.attempt(r2_save_shape, P, rep, ctx)
    rep.attempt(r2_uncommitted_recognisable, P, rep, ctx)
    rep.attempt(r2_manifest_after_commit, P, rep, ctx)
    from . import c03

    # an interrupted patch is resumed (not buried under a fresh patch) by every writable open mode: open-mode contract
    rep.attempt(c03.r2_mode_dispatch, P, rep, ctx)
    # ... and it is found again: file discovery by record name returns every container of the record (rule ids C03.R3)
    rep.attempt(c03.r3_name_language, P, rep, ctx)
    # an interrupted (torn / unfilled) newest container must make the open fail or show up as uncommitted -- never be
    # dropped silently: every given file is loaded and checked (coverage rule of C04.R2)
    from . import c04

    rep.attempt(c04.r2_open_coverage, P, rep, ctx)
    rep.floor("C11.R2", 12)
    rep.floor("C02.R4", 11)
    # refinement against the pinned tree for every function the rules above looked at (rules/pinned.py)
    import os as _os

    if not _os.environ.get("MDSA_PINNED_GEN"):
        from .pinned import refine

        refine(P, rep, ctx, "C11")


def _order(rep, g, fi, rule, a_nodes, b_nodes, a_desc, b_desc):
    """every path to any B passes some A"""
    if not a_nodes or not b_nodes:
        rep.fail(rule, fi.qual, f"{a_desc} before {b_desc}", f"cannot find {'first' if not a_nodes else 'second'} step ({a_desc if not a_nodes else b_desc}) of the protocol", fi.loc())
        return
    for b in b_nodes:
        ok = g.every_path_passes(a_nodes, b)
        rep.check(ok, rule, fi.qual, f"{a_desc} precedes {b_desc} on every path", fi.loc(g.nodes[b].stmt), construct=f"{a_desc} before {b_desc}",
                  message=f"{b_desc} is reachable without {a_desc} before it", path=g.path_text(g.find_path(b, avoid=a_nodes)))


def r2_commit_order(P, rep, ctx):
    fi = P.func("ih5.record.IH5Record.commit_patch")
    g = ctx.cfg(fi)
    close = [n.idx for n in g.nodes if n.kind == "stmt" and any(call_attr(c) == "close" for c in g.calls(n.idx))]
    hashn = calls_named(g, "hashsum_file")
    store = [n.idx for n in g.nodes if n.kind == "stmt" and any("hdf5_hashsum" in norm(t) for _, t in store_targets(n.stmt))]
    save = calls_named(g, "save")
    reopen = [n.idx for n in g.nodes if n.kind == "stmt" and any((dotted(c.func) or "").endswith("h5py.File") for c in g.calls(n.idx))]
    _order(rep, g, fi, "C11.R2", close, hashn, "closing the HDF5 handle", "hashing the payload")
    _order(rep, g, fi, "C11.R2", hashn, store, "hashing the payload", "storing the hash in the user block")
    _order(rep, g, fi, "C11.R2", store, save, "storing the hash in the user block", "saving the user block")
    _order(rep, g, fi, "C11.R2", save, reopen, "saving the user block", "reopening read-only")
    rep.check(len(save) == 1, "C11.R2", fi.qual, "exactly one user-block save in commit_patch", fi.loc(), construct="number of save() calls",
              message=f"commit_patch saves the user block {len(save)} times (protocol: single in-place rewrite)")
    # the stored hash is the one computed from the payload behind the user block
    for n in hashn:
        for c in g.calls(n):
            if call_attr(c) == "hashsum_file":
                sb = kwarg(c, "skip_bytes") or (c.args[1] if len(c.args) > 1 else None)
                rep.check(sb is not None and norm(sb) == "USER_BLOCK_SIZE", "C11.R2", fi.qual, "payload hash skips exactly the user block", fi.loc(c),
                          construct=norm(c), message=f"commit hashes with skip_bytes={norm(sb) if sb is not None else 'missing'} (must be USER_BLOCK_SIZE)")
    for n in store:
        st = g.nodes[n].stmt
        val = st.value if isinstance(st, (ast.Assign, ast.AnnAssign)) else None
        from .common import slice_roots
        derives = val is not None and any(call_attr(c) == "hashsum_file" for _, e, _ in slice_roots(fi, val) if e is not None for c in local_calls(e))
        rep.check(derives, "C11.R2", fi.qual, "stored hash is the computed payload hash", fi.loc(st), construct=norm(st),
                  message=f"value stored into hdf5_hashsum does not derive from the hashsum_file result: {norm(st)}")


def r2_save_shape(P, rep, ctx):
    fi = P.func("ih5.record.IH5UserBlock.save")
    g = ctx.cfg(fi)
    seek0 = [n.idx for n in g.nodes if any(call_attr(c) == "seek" and c.args and norm(c.args[0]) == "0" for c in g.calls(n.idx))]
    wdata = [n.idx for n in g.nodes if any(call_attr(c) == "write" and c.args and not (isinstance(c.args[0], ast.Constant)) for c in g.calls(n.idx))]
    wnul = [n.idx for n in g.nodes if any(call_attr(c) == "write" and c.args and isinstance(c.args[0], ast.Constant) and c.args[0].value == b"\x00" for c in g.calls(n.idx))]
    _order(rep, g, fi, "C11.R2", seek0, wdata, "seek(0)", "writing the user-block data")
    _order(rep, g, fi, "C11.R2", wdata, wnul, "writing the user-block data", "writing the NUL terminator")
    rep.check(bool(wnul) and g.every_path_passes(wnul, g.exit), "C11.R2", fi.qual, "every normal exit of save wrote the NUL terminator", fi.loc(),
              construct="NUL terminator on all exits", message="IH5UserBlock.save can return without writing the NUL terminator")
    trunc = [c for c in local_calls(fi.node) if call_attr(c) == "truncate"]
    rep.check(not trunc, "C11.R2", fi.qual, "save never truncates the file", fi.loc(), construct="truncate in save", message="IH5UserBlock.save truncates the container file")
    sinks = [s for s in fs_sinks(P, fi) if s["kind"] == "open"]
    rep.check(len(sinks) == 1 and sinks[0]["mode"] == "r+b", "C11.R2", fi.qual, "save opens the container 'r+b' (in place, no truncation)", fi.loc(),
              construct="open mode of save", message=f"IH5UserBlock.save opens with modes {[s['mode'] for s in sinks]} (must be exactly one 'r+b')")
    # bounded write: the assertion len(data) < USER_BLOCK_SIZE dominates the write
    asserts = [n.idx for n in g.nodes if n.kind == "stmt" and isinstance(n.stmt, ast.Assert) and "USER_BLOCK_SIZE" in norm(n.stmt.test) and "len(" in norm(n.stmt.test)]
    from .sem import F as _F
    fsem = _F(ctx, fi)
    # ... or the explicit form: the write is reached only where `len(data) < USER_BLOCK_SIZE` was found true (`if not ..: raise`)
    bound_edges = fsem.tests("len(__) < USER_BLOCK_SIZE")
    for w in wdata:
        rep.check(fsem.hit_before(w, nodes=asserts, edges=bound_edges), "C11.R2", fi.qual, "size bound is checked before the user block is written", fi.loc(g.nodes[w].stmt),
                  construct="len(data) < USER_BLOCK_SIZE before write", message="user-block data is written without the size bound check (would overwrite HDF5 payload)")


def r2_uncommitted_recognisable(P, rep, ctx):
    cls = P.cls("ih5.record.IH5UserBlock")
    dflt = cls.attrs.get("hdf5_hashsum")
    rep.check(isinstance(dflt, ast.Constant) and dflt.value is None, "C11.R2", cls.qual, "hdf5_hashsum defaults to None", cls.module.relpath,
              construct="default of hdf5_hashsum", message="IH5UserBlock.hdf5_hashsum does not default to None")
    fi = P.func("ih5.record.IH5UserBlock.create")
    sets = [c for c in local_calls(fi.node) if any(k.arg == "hdf5_hashsum" for k in c.keywords)]
    stores = [t for st in walk_local(fi.node) if isinstance(st, ast.stmt) for _, t in store_targets(st) if "hdf5_hashsum" in norm(t)]
    rep.check(not sets and not stores, "C11.R2", fi.qual, "a fresh user block never carries a payload hash", fi.loc(), construct="hdf5_hashsum in create",
              message="IH5UserBlock.create pre-fills hdf5_hashsum: an interrupted patch would look committed")
    fi = P.func("ih5.record.IH5Record._new_container")
    g = ctx.cfg(fi)
    saves = [c for c in local_calls(fi.node) if call_attr(c) == "save"]
    ok = len(saves) == 1 and isinstance(saves[0].func.value, ast.Name) and saves[0].func.value.id in fi.params
    rep.check(ok, "C11.R2", fi.qual, "_new_container saves exactly the user block it was given", fi.loc(), construct="save in _new_container",
              message="_new_container does not save (only) the passed user block")
    # callers pass a block from IH5UserBlock.create
    for cq in ("ih5.record.IH5Record._create", "ih5.record.IH5Record.create_patch"):
        cfi = P.func(cq)
        for c in local_calls(cfi.node):
            if call_attr(c) == "_new_container" and len(c.args) >= 2 and isinstance(c.args[1], ast.Name):
                nm = c.args[1].id
                defs = [st.value for st in walk_local(cfi.node) if isinstance(st, ast.Assign) and any(isinstance(t, ast.Name) and t.id == nm for t in st.targets)]
                ok = bool(defs) and all(isinstance(d, ast.Call) and norm(d.func) == "IH5UserBlock.create" for d in defs)
                rep.check(ok, "C11.R2", cq, "new container starts from IH5UserBlock.create(...)", cfi.loc(c), construct=f"user block passed to _new_container in {cq}",
                          message=f"{cq}: user block for the new container is not a fresh IH5UserBlock.create(...)")
    # _open recognises it by the same field
    fi = P.func("ih5.record.IH5Record._open")
    g = ctx.cfg(fi)
    tests = [t for t in g.nodes if t.kind == "test" and norm(t.exprs[0]).endswith("_ublock(-1).hdf5_hashsum is None")]
    rep.check(bool(tests), "C11.R2", fi.qual, "_open recognises an uncommitted newest container by hdf5_hashsum is None", fi.loc(), construct="uncommitted test in _open",
              message="_open does not test `_ublock(-1).hdf5_hashsum is None`")


def r2_manifest_after_commit(P, rep, ctx, rule="C11.R2"):
    fi = P.func("ih5.manifest.IH5MFRecord.commit_patch")
    f = F(ctx, fi)
    g = f.g
    sup = f.calls("super().commit_patch(___)")
    if not sup:
        raise AnalysisError("C11.R2: IH5MFRecord.commit_patch does not call super().commit_patch")
    all_saves = f.call_sites("__o.save(___)")
    d0 = local_defs(fi)

    def is_manifest_obj(e) -> bool:
        if isinstance(e, str):
            e = MM.pat(e)
        if norm(e) in ("self.manifest", "self._manifest", "self._fresh_manifest()"):
            return True
        return isinstance(e, ast.Name) and any(v is not None and MM.match("self._fresh_manifest()", v) is not None for k, v in d0.get(e.id, []))

    # writes of the manifest object: mf.save(path), or the same done in place (open(path, 'wb') + write(bytes(mf)))
    from .sem import object_writes

    mwrites = [(i, p_, o, k, c) for i, p_, o, k, c in object_writes(f) if is_manifest_obj(o) or (k == "save" and is_manifest_obj(c.func.value))]
    mfsave = sorted({i for i, p_, o, k, c in mwrites})
    _order(rep, g, fi, rule, sup, mfsave, "the container commit (super().commit_patch)", "writing the manifest file")
    # the only manifest file a commit writes is the sidecar of the container it just committed (never a path remembered
    # from opening: that one may be the sidecar of an older, committed patch)
    paths = sorted({f.x_at(i, p_) for i, p_, o, k, c in mwrites})
    rep.check(paths == ["self._manifest_filepath(self._files[-1].filename)"], rule, fi.qual, "the manifest is written next to the newest container only", fi.loc(), construct="manifest save target",
              message=f"commit_patch writes the manifest to {paths}: a manifest file belonging to an already committed container can be overwritten")
    # ... and that sidecar path is a function of the *container file* (one manifest per container): a path derived from the
    # record name would make every commit overwrite the manifest an already committed container is hash-linked to
    mpf = P.func("ih5.manifest.IH5MFRecord._manifest_filepath")
    mf_ = F(ctx, mpf)
    cp_ = mpf.params[1]
    mrets = [MM.canon_strings(mf_.xe_at(i, v)) for i, v in mf_.returns() if v is not None]
    texts = [norm(v) for v in mrets]
    good = {f"Path(f'{{{cp_}}}{{cls.MANIFEST_EXT}}')", f"Path(f'{{{cp_}}}{{cls.MANIFEST_EXT}}')".replace("cls.", "IH5MFRecord."), f"Path({cp_}).with_name(f'{{Path({cp_}).name}}{{cls.MANIFEST_EXT}}')"}
    lossy = [t for t in texts if any(w in t for w in ("_base_filename", "_infer_name", ".parent", ".stem", ".split(", "with_suffix", "_PATCH_INFIX"))]
    if texts and not lossy and not all(t in good for t in texts):
        raise AnalysisError(f"{rule}: _manifest_filepath has an unrecognised shape: {texts}")
    rep.check(bool(texts) and not lossy, rule, mpf.qual, "the manifest file name is the container file name plus the manifest extension (one sidecar per container)", mpf.loc(), construct="_manifest_filepath",
              message=f"_manifest_filepath derives the sidecar path from the record name instead of the container file ({texts}): all containers of a record share one manifest file, so committing a patch overwrites the manifest that the previously committed container records by hash (that container set no longer opens on its own)")
    # and not reachable through the exception edge of the commit: manifest write must not be inside the try protecting the commit
    for m in mfsave:
        in_try = any(isinstance(t, ast.Try) and any(x is g.nodes[m].stmt for b in t.body for x in ast.walk(b)) and any(x is g.nodes[s_].stmt for s_ in sup for b in t.body for x in ast.walk(b)) for t in ast.walk(fi.node))
        rep.check(not in_try, rule, fi.qual, "manifest is written outside the try block protecting the commit", fi.loc(g.nodes[m].stmt),
                  construct="manifest save placement", message="manifest file is written inside the try block of the container commit")
    # the manifest link is part of the *single* user-block write of the commit: it is attached before the container
    # commit, and the subclass performs no user-block write of its own
    extra = [(i, c, b) for i, c, b in all_saves if not is_manifest_obj(b["__o"]) and not is_manifest_obj(f.xe_at(i, b["__o"])) and i not in mfsave]
    rep.check(not extra, rule, fi.qual, "the manifest subclass writes no user block of its own (single write inside the container commit)", fi.loc(extra[0][1]) if extra else fi.loc(), construct="extra save calls",
              message=f"IH5MFRecord.commit_patch writes the user block a second time ({[norm(c)[:60] for i, c, b in extra]}): a crash between the two writes leaves a container that opens as committed but lacks the manifest link it was committed with")
    installs = f.call_sites("self._set_ublock(-1, __u)")
    links = f.call_sites("__e.update(__u)")
    links = [(i, c, b) for i, c, b in links if "IH5UBExtManifest(" in f.x_at(i, b["__e"])]
    new_blocks = {f.alias_root(i, b["__u"]) for i, c, b in links if isinstance(b["__u"], ast.Name)}
    link1 = [i for i, c, b in links]
    link2 = [i for i, c, b in installs if f.alias_root(i, b["__u"]) in new_blocks]
    ok = bool(link1) and bool(link2) and f.all_hit_before(link2, nodes=link1) and f.all_hit_before(sup, nodes=link2)
    rep.check(ok, rule, fi.qual, "the manifest link is put into a copy of the user block, which is installed as the newest block before the (single) commit write", fi.loc(), construct="manifest link before commit",
              message="the user block written by the container commit does not carry the manifest link (extension not attached to new_ub, or new_ub not installed with _set_ublock(-1, new_ub) before super().commit_patch)")
    d = local_defs(fi)
    nd = sorted({MM.xtext(fi.node, v) for nb in new_blocks for k, v in d.get(nb, []) if v is not None})
    rep.check(nd == ["self._ublock(-1).copy()"], rule, fi.qual, "the committed block is a copy of the current one (the original is kept for roll-back)", fi.loc(), construct=f"new_ub = {nd}", message=f"new_ub is {nd}")
    # failed commit restores the user block
    exc = [n for n in g.nodes if n.kind == "except"]
    for h in exc:
        body_nodes = g.reach([h.idx])
        resets = [n for n in body_nodes if any(call_attr(c) == "_set_ublock" for c in g.calls(n))]
        reraises = [n for n in body_nodes if isinstance(g.nodes[n].stmt, ast.Raise)]
        rep.check(bool(resets) and bool(reraises), rule, fi.qual, "failed commit restores the in-memory user block and re-raises", fi.loc(h.stmt),
                  construct="except handler of commit", message="failed container commit does not restore the old user block / does not re-raise")
