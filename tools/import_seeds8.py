#!/venv/bin/python
"""Import confirmed round-8 (blind) seeded changes into /verif/seeded/<Cxx>_r6<k>/."""
import json, shutil, sys
from pathlib import Path
V = Path(__file__).resolve().parent.parent
sys.path.insert(0, str(V))
from tools.try_seed import run as try_run
BLIND_OWN = set('C03/b C04/b C07/b C10/a C12/a C12/b C14/a C14/b C16/b C20/a C20/b'.split())
BLIND_OTHER = {'C04/a': 'C19.R1', 'C07/a': 'C06.R9', 'C09/a': 'C08.R3', 'C09/b': 'C01.R12', 'C10/b': 'C02.R1, C02.R2'}
BLIND_EXIT2 = set()
only = set(sys.argv[1:])
for res in sorted(Path("/tmp/vw8").glob("*.result")):
    line = res.read_text().strip()
    sid = line.split()[0]
    if only and sid not in only: continue
    pid, k = sid.split("/")
    if "applies=1 demo_clean=0 demo_patched=1" not in line or "66 passed" not in line or "284 passed" not in line:
        print("NOT CONFIRMED", line); continue
    src = Path("/tmp/seeded8") / pid / k
    dst = V / "seeded" / f"{pid}_r8{k}"
    dst.mkdir(parents=True, exist_ok=True)
    applied = Path(f"/tmp/vw8/{pid}_{k}.applied.diff")
    shutil.copy(applied if applied.exists() and applied.stat().st_size else src / "patch.diff", dst / "patch.diff")
    shutil.copy(src / "demo.py", dst / "demo.py")
    meta = json.loads((src / "meta.json").read_text())
    found = try_run(dst / "patch.diff")
    own = found.get(pid, [])
    caught_rule = own[0].split(" @ ")[0] if own and not own[0].startswith(("EXIT2", "CRASH")) else None
    first = "caught by the property's own check on first (blind) contact" if sid in BLIND_OWN else "property's own check stopped with ANALYSIS-ERROR (exit 2, unrecognised shape) on first (blind) contact; rule made decisive afterwards" if sid in BLIND_EXIT2 else (f"MISSED by the property's own check on first (blind) contact (another property's check fired: {BLIND_OTHER[sid]}); rule added afterwards" if sid in BLIND_OTHER else "MISSED by every check on first (blind) contact; rule added afterwards")
    out = {"property": pid, "round": 8, "summary": meta.get("summary"), "needs_to_manifest": meta.get("needs_to_manifest"), "files": meta.get("files"),
        "origin": "independent sub-agent given only the property text, the one-line summaries of the earlier seeded changes to avoid, and its own scratch worktree (nothing from /verif)",
        "first_contact": first,
        "confirmed_by_me": {"worktree": "fresh `git worktree add --detach` of /repo HEAD under /tmp/vw8, removed afterwards", "patch_applies": True,
            "baseline_result": line.split("| base: ")[1].split(" | upstream")[0], "upstream_result": line.split("| upstream: ")[1],
            "demo": "exit 0 (PASS) on the unchanged tree, exit 1 (FAIL) with the patch (PYTHONPATH=/verif/tools/triage:<tree>/src /venv/bin/python demo.py)"},
        "checks_that_fire": found, "caught_by": caught_rule}
    (dst / "meta.json").write_text(json.dumps(out, indent=1))
    print(sid, "caught_by", caught_rule)
