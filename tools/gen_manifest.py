#!/usr/bin/env python3
"""Regenerates /verif/MANIFEST.json from the table below (one entry per property with a check;
every other property of properties.jsonl is listed under not_applicable)."""
import json
from pathlib import Path

V = Path(__file__).resolve().parent.parent

COMMON_NOTE = (
    "Static analysis only: /repo's current sources are parsed (ast) on every run; nothing from /repo is imported or executed. "
    "A pass means the named structural clauses — each a necessary condition of the property — hold on every path of the analysed "
    "functions; it does NOT prove the behavioural equality the property states as a whole. Trusted: CPython's ast, the mdsa engine "
    "(loader, statement CFG, syntactic callee resolution), the stated models of externals (h5py mode 'r' is read-only, pathlib "
    "is_file/is_dir follow symlinks, wrapt.ObjectProxy forwarding, pydantic v1). "
    "Besides the hand-written rules Cnn.R*, every check runs the refinement rules Cnn.P1-P7 (rules/pinned.py) over every function of "
    "the modules the property is anchored in: the facts recorded on the reviewed tree (mdsa/pinned_summaries.json: totality, refusals, "
    "guard calls, defaults, first/last index, decision tables, the condition of every effect as a boolean function of the tested atoms) "
    "must still be refined by the tree under analysis; a re-spelled condition or effect gives no verdict (DESIGN.md 11.8). "
)

CHECKS = {
    "C02": dict(
        technique="static ownership / typestate analysis: file-system sink enumeration with a who-may-write table, backward def-use slicing of written paths, interprocedural guard dominance over a statement CFG",
        text="Decides for all histories that only the newest, uncommitted container (or a file created in the same call) is ever opened writable, "
             "that every written path derives from it, that commit/discard are typestate-guarded and that every overlay write targets _files[-1] behind _guard_read_only. "
             "This is the ownership argument behind immutability; it is stronger than sampling histories because it quantifies over all paths of the code.",
        note="Not decided: byte identity under a misbehaving HDF5 library or OS; user code bypassing the API.",
        ref="DESIGN.md section 4 C02"),
    "C11": dict(
        technique="static ownership analysis (C02 rules) discharging the crash-point quantifier + CFG ordering rules for the commit protocol",
        text="All crash points at once: a killed process can only damage files it holds open for writing, and the C02 rules show committed containers are never opened writable. "
             "Additionally the commit protocol order (close < hash < store < single in-place save < reopen 'r'), the shape of the user-block write and the recognisability of an interrupted patch are decided on every path.",
        note="Not decided: the torn-write clause (which spliced user-block prefixes still parse) and the run-time acceptance of the resulting file sets.",
        ref="DESIGN.md section 4 C11"),
}

CHECKS.update({
    "C08": dict(
        technique="protocol exhaustiveness against the wrapper class table (+ wrapt forwarding table parsed from source), path-sensitive taint analysis (user path strings -> raw container, sanitiser _guard_path), CFG edge-dominance of listing filters, constant folding of the reserved-prefix predicates",
        text="Decides for every method of the group/file protocol and every path argument that a reserved name cannot reach the raw container unguarded, that no protocol member bypasses the wrapper, "
             "that listings/visits are filtered and that the guard predicate covers every bookkeeping path — statements over all inputs that a finite set of sample paths cannot establish.",
        note="Not decided: the second sentence of the property (user-visible tree equals the plain-tree result) — a run-time equality.",
        ref="DESIGN.md section 4 C08"),
    "C15": dict(
        technique="induction over navigation steps: classification of every value handed out by the wrapper layer (return/yield/callback argument) + OWN rule for flag stores + guard dominance tables with the _wrap_method factory expanded",
        text="Replaces the bounded enumeration of navigation chains by an induction step decided statically: every single navigation primitive preserves the restriction flags, flags are monotone, "
             "and every mutating / data-reading / upward operation is dominated by its guard; hence every chain of any length preserves them.",
        note="Not decided: attributes outside the H5*Like protocol that MetadorDataset.__getattr__ passes through; bypass via __wrapped__ (documented soft restriction). One known finding (MetadorNode.file) is listed in known_findings.json.",
        ref="DESIGN.md section 4 C15"),
})

CHECKS.update({
    "C16": dict(
        technique="shape theorem for lexicographic orders (AST normal forms of __eq__/__hash__/__ge__/supports), fall-through (TOTAL) analysis on the CFG, key-agreement and sort-after-append rules, regular-language emptiness (NFA product) for the entry-point name codec",
        text="The order axioms, consistency with ==/hash and the `supports` relation are decided for ALL references by recognising the lexicographic / conjunctive normal form rather than enumerating triples; "
             "registration/resolution order and the unambiguity of the name codec (for all strings, via automata) are decided structurally.",
        note="Trusted: functools.total_ordering, list.sort, total order of str and int tuples. Nothing else of the property is left undecided.",
        ref="DESIGN.md section 4 C16"),
})

CHECKS.update({
    "C12": dict(
        technique="metaclass-MRO linearisation + CFG must-pass (cooperative super() chain), registry/encoder-parser pairing table (EXHAUST) with finite-domain partial evaluation of the parsers' isinstance dispatch, AST normal forms of the dump/parse defaults and constant handling",
        text="Decides the structural conditions without which no instance can round-trip: the encoder hook of every schema class is installed (cooperative metaclass chain), every custom value type has an encoder and a parser accepting the encoder's output, "
             "dict/json/bytes/parse_raw agree on defaults and order, constants are forced on input and inherited per class.",
        note="Not decided: parse(serialise(x)) == x for all instances (run-time equality, third-party pydantic / isodate / pint behaviour).",
        ref="DESIGN.md section 4 C12"),
    "C14": dict(
        technique="BLIND rule (no truthiness use of merged values), FRAME rule (no store / in-place mutator / augmented assignment on anything derived from the operands), CFG edge-dominance for the partial-of-partial domain and the conflict policy",
        text="Decides necessary conditions of the monoid laws on every path of the merge code: values are never tested for truthiness (identity law for falsy values), the result is built on an unconditional copy and operands are never mutated, "
             "get_partial is only applied to non-partial values and class compatibility is tested on normalised values, conflicts raise unless overwriting is allowed.",
        note="Not decided: associativity and identity for all triples of partial instances (run-time algebra), round trip through to_partial/from_partial.",
        ref="DESIGN.md section 4 C14"),
})

CHECKS.update({
    "C01": dict(
        technique="reaching-definition / control-dependence shape analysis of the child-resolution loop, abstract interpretation over 'record may have patches' for the deletion and substitution markers, marker constant agreement, interprocedural guard dominance, no-raw-access rule for move/copy, syntactic exception-handler coverage (try/except position) for the failure-path clauses",
        text="Decides five structural necessary conditions of overlay transparency on every path of overlay.py (each names the concrete failing history if violated): sticky-virtual child resolution, deletion markers on every patched delete, substitution markers / stale marker removal on create, writer/reader marker agreement, guard discipline, move/copy through overlay primitives only; plus two failure-path clauses (a refused move removes nothing but the source after the copy; a refused raw create after a marker removal puts the marker back).",
        note="Not decided: equality of the overlay view with the reference tree over all histories and patch placements (run-time values). One known finding (C01.R13, IH5Group.create_dataset: a failed raw create after the deletion marker was removed lets the deleted node reappear) is listed in known_findings.json.",
        ref="DESIGN.md section 4 C01"),
    "C03": dict(
        technique="CFG order rule (sort before positional access), finite-domain partial evaluation of the constructor over 6 open modes x argument kind x disk situation against a contract table, character-class algebra on the repo's regex constants for file-name discovery, codec agreement between user-block writer and reader",
        text="Decides order independence of the file list, the complete open-mode dispatch table (27 cells, exhaustively), unambiguity of record-name discovery for all names (class disjointness, not samples), close/discard discipline and the user-block codec.",
        note="Not decided: the reopened view equals the previous view (run-time equality).",
        ref="DESIGN.md section 4 C03"),
    "C04": dict(
        technique="DNF normalisation of the raising predicates of _check_ublock against a required table + un-bypassability (CFG must-pass), index-coverage and must-pass rules for _open, super()-delegation rules, raw-bytes provenance of the manifest hash",
        text="Decides that each validation the property relies on is present with the exact predicate, raises, cannot be bypassed by an early return and lies on every path to a successful open (base, every middle container, newest, distinct uuids, manifest existence + raw-byte hash).",
        note="Not decided: that every valid set opens (completeness), collision resistance, behaviour per corrupted byte at run time.",
        ref="DESIGN.md section 4 C04"),
    "C05": dict(
        technique="DOM (refusals before effects), FRAME (no store to the source record), def-use shape of the merged user block + ORDER (close < hash < save), copy-coverage shape rules, user-block codec agreement",
        text="Decides that merge refuses uncommitted/stub sets before any effect, never mutates the still-open source, labels the merged container as the newest source block with the oldest prev_patch and the hash of the closed payload, and that the copy covers root attributes, all entities, both kinds, attributes and full values.",
        note="Not decided: merged tree == overlay view; follow-up patch behaviour at run time.",
        ref="DESIGN.md section 4 C05"),
    "C06": dict(
        technique="MUST/ORDER pairing rules on the CFG (register/unregister, destroy-before-delete, relink-after-move/copy), parameter-threading rule for the _unlink switch, OWN rule for the reserved namespace via def-use slicing of written paths, paired-cleanup rules, loader/writer table agreement incl. a use-after-loop rule",
        text="Decides the pairing and ownership conditions without which TOC and metadata cannot stay in sync: every store registers, every delete unregisters (switch threaded), node operations carry their metadata, only bookkeeping code writes reserved paths, emptied bookkeeping groups are removed, and the index rebuilt on open is populated per stored entry like the incremental one.",
        note="Not decided: the one-to-one invariant over all reachable container states on both drivers.",
        ref="DESIGN.md section 4 C06"),
    "C07": dict(
        technique="key-kind typing of a dict field from annotations (AGREE), CFG order rules for the set discipline, role derivation (requested vs stored) at every PluginRef.supports call against a frozen table, sibling agreement of the query membership tests, fresh-view rule",
        text="Decides that the per-node object index is keyed consistently, that set validates/refuses in order and stores the validated bytes, that version compatibility is tested in the right direction at every registry lookup, and that container queries test start node and descendants identically and traverse only below the start node.",
        note="Not decided: exactness of query result sets and equality of returned objects (run time).",
        ref="DESIGN.md section 4 C07"),
    "C09": dict(
        technique="layering rule (every attribute used on a raw-role expression is an H5*Like protocol member; raw roles tracked through locals, loops and callbacks), EXHAUST + arity check of the IH5 classes against the protocols, keyword-set agreement between container call sites and IH5 callees, closed enum dispatch; plus the C01 overlay rules",
        text="Decides the mechanism that makes driver-independence possible: the container uses raw objects only through the protocols, IH5 implements every member with a compatible signature and consumes exactly the keywords passed, driver dispatch is total; and re-checks the overlay's structural conditions (C01) because IH5 can only mimic h5py if the overlay is transparent.",
        note="Not decided: lock-step equality of the two executions over all histories.",
        ref="DESIGN.md section 4 C09"),
    "C10": dict(
        technique="def-use rule (only h5py.Empty placeholders flow into a stub), per-iteration MUST rule, OWN rule for the stub flag, shape rules for stub identity, ORDER/AGREE rules for manifest hash vs. saved object",
        text="Decides that stubs carry no data but every node and attribute name of the skeleton, that a stub has the identity of the real newest container minus prev_patch, that only create_stub can mark a stub, and that the manifest written at a successful commit is exactly the object whose bytes were hashed into the user block (extensions inherited before hashing).",
        note="Not decided: stub-patch == direct-patch on the real record (run time).",
        ref="DESIGN.md section 4 C10"),
    "C13": dict(
        technique="call-graph/MUST wiring rules for the load-time override check, static re-check of all shipped schema classes with a structural subtype relation on annotation ASTs (alias expansion, repo class hierarchy), never-accepts-on-its-own rule for the subtype wrapper",
        text="Decides that the override check is wired into plugin loading for the whole class chain, that extras policy cannot be loosened, re-derives the check for the 36 shipped schemas from source (the package cannot be imported here), and that the subtype wrapper can only be stricter than the third-party test.",
        note="Not decided: soundness of runtype.is_subtype and acceptance over all values.",
        ref="DESIGN.md section 4 C13"),
    "C17": dict(
        technique="guard dominance for caller-supplied values (DOM), def-use shape of the byte payload and the two-case wrapper (BLIND on the wrapped value), provenance of harvested size/hash incl. a no-memoisation rule",
        text="Decides that the deletion-marker guard precedes every store of a caller-supplied value in the overlay, that file bytes flow untransformed into the dataset through a wrapper decided by len(bytes) only, that copies use full-value reads, and that harvested size/hash are computed from the file on each call.",
        note="Not decided: byte fidelity through numpy/HDF5 for all byte strings on both drivers (run time).",
        ref="DESIGN.md section 4 C17"),
    "C18": dict(
        technique="syntax-directed emission-order analysis (loop unrolling over literal lists), finite-domain partial evaluation of compare over {None,str,dict}^2 with role tables, identity-test-only rule for status",
        text="Decides the safe ordering of the node listing for all diffs (removed < modified < self < added, sorted, recursive, no shortcut return), exhaustiveness and role-correctness of the 3x3 case analysis, and the status mapping.",
        note="Not decided: reported path set == symmetric difference for all tree pairs (run time).",
        ref="DESIGN.md section 4 C18"),
    "C19": dict(
        technique="CFG loop-exit / must-update rules for the chunk loop, shadowed-branch rule with an external model of pathlib (is_file follows links), dominance of the outside-link refusal, resolve-vs-textual normalisation rule, purity rule (no stat / memoisation on the hash chain)",
        text="Decides that every byte is hashed regardless of chunking, that symlinks are recognised before files/directories, that out-of-directory links raise and containment is tested on resolved paths, and that the tree is built from content only.",
        note="Not decided: injectivity / collision resistance; equality of trees for equal directories at run time.",
        ref="DESIGN.md section 4 C19"),
    "C20": dict(
        technique="MUST/ORDER rules for store-on-first-use with exact (name, version) lookups, cooperating-sites rule (provider test vs. cleanup), loader/writer agreement, TOTAL + dropped-value rule for accessors, shape rules for the JSON Schema export",
        text="Decides that JSON Schema, parent chain and a providing package are stored before the first link of a schema, that a reopened container rebuilds the same tables per entry, that accessors return what is stored, and that constants/parser info are exported.",
        note="Not decided: stored objects validate against the embedded JSON Schema; plugin-side truth at run time.",
        ref="DESIGN.md section 4 C20"),
})

REASON_PENDING = "check not built yet (build in progress; see DESIGN.md section 4 for the planned static rules)"
NOT_APPLICABLE = {}


def main():
    props = [json.loads(l) for l in (V / "properties.jsonl").read_text().splitlines() if l.strip()]
    checks, na = [], []
    for p in props:
        pid = p["id"]
        c = CHECKS.get(pid)
        if c is None:
            na.append({"property_id": pid, "reason": NOT_APPLICABLE.get(pid, REASON_PENDING)})
            continue
        checks.append({
            "property_id": pid,
            "quick_cmd": f"./check {pid} --tier quick",
            "thorough_cmd": f"./check {pid} --tier thorough",
            "evidence_file": f"/verif/evidence/{pid}.json",
            "replay_cmd_template": "cat {path}",
            "engine": "mdsa",
            "level_claimed": {"category": "other", "text": c["text"], "design_ref": c["ref"]},
            "level_note": COMMON_NOTE + c["note"],
            "technique": c["technique"],
        })
    m = {
        "version": 1,
        "setup_cmd": "/venv/bin/python -B -c \"import ast,sys; sys.path.insert(0,'/verif'); import mdsa.loader\"",
        "hooks": {
            "guard": "METADOR_CORE_VERIF",
            "enable": "none needed: the checks analyse /repo's sources statically, nothing is built, executed or instrumented",
            "baseline_off_cmd": "cd /repo && /venv/bin/python -m pytest -ra -q -p no:cacheprovider --timeout=900 --continue-on-collection-errors",
            "source_commits": [],
            "add_only": True,
        },
        "engines": [{
            "name": "mdsa",
            "path": "/verif/mdsa",
            "serves_properties": sorted(CHECKS),
            "kind_free_text": "repository-specific static analyser (stdlib ast): loader + class/MRO tables + constant folding, statement-level CFG with "
                              "dominance/must-pass/order queries, syntactic call graph, def-use slicing, finite-domain dispatch evaluation, regex-language NFAs; rule files in /verif/rules",
        }],
        "checks": checks,
        "notes": "quick = all rule instances of the property on the current tree; thorough = quick + whole-package variants of the rules + the checker self-test "
                 "(firing variants, neutral twins, reverse patches of the fix: commits, seeded changes) applied in memory. Exit 2 + 'ANALYSIS-ERROR' = the analysis itself "
                 "could not be carried out (anchor vanished, unknown shape, instance floor) — never a silent pass. Known findings: /verif/known_findings.json.",
        "not_applicable": na,
    }
    (V / "MANIFEST.json").write_text(json.dumps(m, indent=1))
    print(f"{len(checks)} checks, {len(na)} not applicable")


if __name__ == "__main__":
    main()
