#!/usr/bin/env python3
"""Regenerates /verif/MANIFEST.json from the table below (one entry per property with a check;
every other property of properties.jsonl is listed under not_applicable)."""
import json
from pathlib import Path

V = Path(__file__).resolve().parent.parent

COMMON_NOTE = (
    "Static analysis only: /repo's current sources are parsed (ast) on every run; nothing from /repo is imported or executed. "
    "A pass means the named structural clauses — each a necessary condition of the property — hold on every path of the analysed "
    "functions; it does NOT prove the behavioural equality the property states as a whole. Trusted: CPython's ast, the mdsa engine "
    "(loader, statement CFG, syntactic callee resolution), the stated models of externals (h5py mode 'r' is read-only, pathlib "
    "is_file/is_dir follow symlinks, wrapt.ObjectProxy forwarding, pydantic v1). "
)

CHECKS = {
    "C02": dict(
        technique="static ownership / typestate analysis: file-system sink enumeration with a who-may-write table, backward def-use slicing of written paths, interprocedural guard dominance over a statement CFG",
        text="Decides for all histories that only the newest, uncommitted container (or a file created in the same call) is ever opened writable, "
             "that every written path derives from it, that commit/discard are typestate-guarded and that every overlay write targets _files[-1] behind _guard_read_only. "
             "This is the ownership argument behind immutability; it is stronger than sampling histories because it quantifies over all paths of the code.",
        note="Not decided: byte identity under a misbehaving HDF5 library or OS; user code bypassing the API.",
        ref="DESIGN.md section 4 C02"),
    "C11": dict(
        technique="static ownership analysis (C02 rules) discharging the crash-point quantifier + CFG ordering rules for the commit protocol",
        text="All crash points at once: a killed process can only damage files it holds open for writing, and the C02 rules show committed containers are never opened writable. "
             "Additionally the commit protocol order (close < hash < store < single in-place save < reopen 'r'), the shape of the user-block write and the recognisability of an interrupted patch are decided on every path.",
        note="Not decided: the torn-write clause (which spliced user-block prefixes still parse) and the run-time acceptance of the resulting file sets.",
        ref="DESIGN.md section 4 C11"),
}

CHECKS.update({
    "C08": dict(
        technique="protocol exhaustiveness against the wrapper class table (+ wrapt forwarding table parsed from source), path-sensitive taint analysis (user path strings -> raw container, sanitiser _guard_path), CFG edge-dominance of listing filters, constant folding of the reserved-prefix predicates",
        text="Decides for every method of the group/file protocol and every path argument that a reserved name cannot reach the raw container unguarded, that no protocol member bypasses the wrapper, "
             "that listings/visits are filtered and that the guard predicate covers every bookkeeping path — statements over all inputs that a finite set of sample paths cannot establish.",
        note="Not decided: the second sentence of the property (user-visible tree equals the plain-tree result) — a run-time equality.",
        ref="DESIGN.md section 4 C08"),
    "C15": dict(
        technique="induction over navigation steps: classification of every value handed out by the wrapper layer (return/yield/callback argument) + OWN rule for flag stores + guard dominance tables with the _wrap_method factory expanded",
        text="Replaces the bounded enumeration of navigation chains by an induction step decided statically: every single navigation primitive preserves the restriction flags, flags are monotone, "
             "and every mutating / data-reading / upward operation is dominated by its guard; hence every chain of any length preserves them.",
        note="Not decided: attributes outside the H5*Like protocol that MetadorDataset.__getattr__ passes through; bypass via __wrapped__ (documented soft restriction). One known finding (MetadorNode.file) is listed in known_findings.json.",
        ref="DESIGN.md section 4 C15"),
})

CHECKS.update({
    "C16": dict(
        technique="shape theorem for lexicographic orders (AST normal forms of __eq__/__hash__/__ge__/supports), fall-through (TOTAL) analysis on the CFG, key-agreement and sort-after-append rules, regular-language emptiness (NFA product) for the entry-point name codec",
        text="The order axioms, consistency with ==/hash and the `supports` relation are decided for ALL references by recognising the lexicographic / conjunctive normal form rather than enumerating triples; "
             "registration/resolution order and the unambiguity of the name codec (for all strings, via automata) are decided structurally.",
        note="Trusted: functools.total_ordering, list.sort, total order of str and int tuples. Nothing else of the property is left undecided.",
        ref="DESIGN.md section 4 C16"),
})

CHECKS.update({
    "C12": dict(
        technique="metaclass-MRO linearisation + CFG must-pass (cooperative super() chain), registry/encoder-parser pairing table (EXHAUST) with finite-domain partial evaluation of the parsers' isinstance dispatch, AST normal forms of the dump/parse defaults and constant handling",
        text="Decides the structural conditions without which no instance can round-trip: the encoder hook of every schema class is installed (cooperative metaclass chain), every custom value type has an encoder and a parser accepting the encoder's output, "
             "dict/json/bytes/parse_raw agree on defaults and order, constants are forced on input and inherited per class.",
        note="Not decided: parse(serialise(x)) == x for all instances (run-time equality, third-party pydantic / isodate / pint behaviour).",
        ref="DESIGN.md section 4 C12"),
    "C14": dict(
        technique="BLIND rule (no truthiness use of merged values), FRAME rule (no store / in-place mutator / augmented assignment on anything derived from the operands), CFG edge-dominance for the partial-of-partial domain and the conflict policy",
        text="Decides necessary conditions of the monoid laws on every path of the merge code: values are never tested for truthiness (identity law for falsy values), the result is built on an unconditional copy and operands are never mutated, "
             "get_partial is only applied to non-partial values and class compatibility is tested on normalised values, conflicts raise unless overwriting is allowed.",
        note="Not decided: associativity and identity for all triples of partial instances (run-time algebra), round trip through to_partial/from_partial.",
        ref="DESIGN.md section 4 C14"),
})

REASON_PENDING = "check not built yet (build in progress; see DESIGN.md section 4 for the planned static rules)"
NOT_APPLICABLE = {}


def main():
    props = [json.loads(l) for l in (V / "properties.jsonl").read_text().splitlines() if l.strip()]
    checks, na = [], []
    for p in props:
        pid = p["id"]
        c = CHECKS.get(pid)
        if c is None:
            na.append({"property_id": pid, "reason": NOT_APPLICABLE.get(pid, REASON_PENDING)})
            continue
        checks.append({
            "property_id": pid,
            "quick_cmd": f"./check {pid} --tier quick",
            "thorough_cmd": f"./check {pid} --tier thorough",
            "evidence_file": f"/verif/evidence/{pid}.json",
            "replay_cmd_template": "cat {path}",
            "engine": "mdsa",
            "level_claimed": {"category": "other", "text": c["text"], "design_ref": c["ref"]},
            "level_note": COMMON_NOTE + c["note"],
            "technique": c["technique"],
        })
    m = {
        "version": 1,
        "setup_cmd": "/venv/bin/python -B -c \"import ast,sys; sys.path.insert(0,'/verif'); import mdsa.loader\"",
        "hooks": {
            "guard": "METADOR_CORE_VERIF",
            "enable": "none needed: the checks analyse /repo's sources statically, nothing is built, executed or instrumented",
            "baseline_off_cmd": "cd /repo && /venv/bin/python -m pytest -ra -q -p no:cacheprovider --timeout=900 --continue-on-collection-errors",
            "source_commits": [],
            "add_only": True,
        },
        "engines": [{
            "name": "mdsa",
            "path": "/verif/mdsa",
            "serves_properties": sorted(CHECKS),
            "kind_free_text": "repository-specific static analyser (stdlib ast): loader + class/MRO tables + constant folding, statement-level CFG with "
                              "dominance/must-pass/order queries, syntactic call graph, def-use slicing, finite-domain dispatch evaluation, regex-language NFAs; rule files in /verif/rules",
        }],
        "checks": checks,
        "notes": "quick = all rule instances of the property on the current tree; thorough = quick + whole-package variants of the rules + the checker self-test "
                 "(firing variants, neutral twins, reverse patches of the fix: commits, seeded changes) applied in memory. Exit 2 + 'ANALYSIS-ERROR' = the analysis itself "
                 "could not be carried out (anchor vanished, unknown shape, instance floor) — never a silent pass. Known findings: /verif/known_findings.json.",
        "not_applicable": na,
    }
    (V / "MANIFEST.json").write_text(json.dumps(m, indent=1))
    print(f"{len(checks)} checks, {len(na)} not applicable")


if __name__ == "__main__":
    main()
