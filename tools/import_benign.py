#!/venv/bin/python
"""Import confirmed property-keeping commits (refactorings -> selftest/neutral, maintenance -> selftest/benign) delivered by
independent sub-agents. usage: tools/import_benign.py <delivery root> <result dir> <round>"""
import json, shutil, sys
from pathlib import Path
V = Path(__file__).resolve().parent.parent
sys.path.insert(0, str(V))
from tools.try_seed import run as try_run
root, res_dir, rnd = Path(sys.argv[1]), Path(sys.argv[2]), sys.argv[3]
for res in sorted(res_dir.glob("*.result")):
    line = res.read_text().strip()
    sid = line.split()[0]
    a, k = sid.split("/")
    if "applies=1" not in line or "66 passed" not in line or "284 passed" not in line:
        print("NOT CONFIRMED", line); continue
    src = root / a / k
    meta = json.loads((src / "meta.json").read_text())
    kind = "neutral" if meta.get("kind") == "refactoring" else "benign"
    dst = V / "selftest" / kind / f"{a}{rnd}_{k}"
    dst.mkdir(parents=True, exist_ok=True)
    applied = res_dir / f"{a}_{k}.applied.diff"
    shutil.copy(applied if applied.exists() and applied.stat().st_size else src / "patch.diff", dst / "patch.diff")
    meta["round"] = int(rnd)
    meta["confirmed_by_me"] = {"patch_applies": True, "baseline_result": line.split("| base: ")[1].split(" | upstream")[0], "upstream_result": line.split("| upstream: ")[1]}
    (dst / "meta.json").write_text(json.dumps(meta, indent=1))
    print(sid, kind, json.dumps(try_run(dst / "patch.diff")))
