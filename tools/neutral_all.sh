#!/bin/bash
# usage: tools/neutral_all.sh C01,C02   -- runs the given checks on the clean tree first, then on every neutral twin
cd "$(dirname "$0")/.."
props="$1"
for p in ${props//,/ }; do ./check $p --tier quick >/dev/null 2>&1 || { echo "$p fails on the clean tree: fix that first"; exit 1; }; done
ls -d selftest/neutral/*/ | xargs -P 8 -n 1 /venv/bin/python -B tools/try_seed.py $props | grep -v '{}$' | sort | head -${2:-40}
