#!/venv/bin/python
"""Regenerate mdsa/pinned_summaries.json: the facts (total / refuses / guards / defaults) of every function under some
property's rules on the tree the rules were confirmed against.  Run only on a tree on which all 20 checks pass and
after the changes to these functions were reviewed (like tools/gen_known_functions.py)."""
import importlib, json, os, sys
from pathlib import Path
V = Path(__file__).resolve().parent.parent
sys.path.insert(0, str(V))
os.environ["MDSA_PINNED_GEN"] = "1"
from mdsa.loader import Program
from mdsa.report import Report
from rules.common import Ctx
from rules import pinned
P = Program()
fns = set()
props = {}
for i in range(1, 21):
    pid = f"C{i:02d}"
    mod = importlib.import_module(f"rules.{pid.lower()}")
    rep = Report(pid, "quick")
    rep.program_stats = P.stats()
    mod.run(P, rep, "quick")
    fns |= {f for f in rep.analysed_functions if f in P.functions}
    for f_ in rep.analysed_functions:
        props.setdefault(f_, []).append(pid)
# every function of a module a property is anchored in (properties.jsonl anchors + pinned.EXTRA_SCOPE) carries the obligations of
# that property, whether or not a hand-written rule looks at it
for i in range(1, 21):
    pid = f"C{i:02d}"
    mods = pinned.scope(pid) | pinned.EXTRA_SCOPE.get(pid, set())
    for q, fi in P.functions.items():
        if fi.module.name in mods and isinstance(fi.node, __import__("ast").FunctionDef):
            fns.add(q)
            if pid not in props.setdefault(q, []):
                props[q].append(pid)
# local functions of the analysed functions carry the same obligations (they are part of the analysed body)
todo = list(fns)
while todo:
    q = todo.pop()
    for nf in getattr(P.functions[q], "nested", {}).values():
        if nf.qual in P.functions and nf.qual not in fns:
            fns.add(nf.qual)
            props[nf.qual] = list(props.get(q, []))
            todo.append(nf.qual)
ctx = Ctx(P)
out = {}
for q in sorted(fns):
    try:
        s = pinned.summarise(ctx, P.functions[q])
    except Exception as e:
        print("skip", q, type(e).__name__, e)
        continue
    if s is not None and (s["total"] or s["refuses"] or s["guards"] or s["defaults"] or s["option_defaults"] or s["index_statements"] or s["answers"] or s["effects"]):
        s["props"] = props.get(q, [])
        out[q] = s
(V / "mdsa" / "pinned_summaries.json").write_text(json.dumps(out, indent=1, sort_keys=True))
print(len(out), "functions;", sum(1 for s in out.values() if s["total"]), "total,", sum(len(s["refuses"]) for s in out.values()), "refusal terms,", sum(len(s["guards"]) for s in out.values()), "guard calls,", sum(len(s["defaults"]) for s in out.values()), "defaults")
