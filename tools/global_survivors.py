#!/venv/bin/python
"""List the single-point mutants (operators of selftest/mutate.py) of every function under some rule that NO check of
the 20 notices.  Output: JSON lines {file, function, line, op, site, mutated_source_file} under <outdir>; the mutated
module source is written next to it so that a triage run can drop it over the original file.
Triage tool (finding rule gaps); not used by any registered check."""
import ast
import importlib
import json
import os
import sys
from concurrent.futures import ProcessPoolExecutor
from pathlib import Path

V = Path(__file__).resolve().parent.parent
sys.path.insert(0, str(V))
from mdsa.loader import AnalysisError, Program  # noqa: E402
from mdsa.report import Report, _load_known  # noqa: E402
from selftest import mutate as MU  # noqa: E402

PIDS = [f"C{i:02d}" for i in range(1, 21)]


def noticed(relfile, source):
    try:
        P = Program(str(MU.src_dir()), overlay={relfile: source})
    except Exception:
        return ["load-error"]
    hits = []
    for pid in PIDS:
        try:
            mod = importlib.import_module(f"rules.{pid.lower()}")
            rep = Report(pid, "quick")
            rep.program_stats = P.stats()
            mod.run(P, rep, "quick")
            known = {k["key"] for k in _load_known().get("known", []) if k.get("property") == pid}
            if [f for f in rep.findings if f.key not in known] or rep.analysis_errors:
                hits.append(pid)
        except AnalysisError:
            hits.append(pid)
        except Exception:
            hits.append(pid + "!")
    return hits


def job(a):
    q, rel, op, idx, desc, line, src = a
    return {"function": q, "file": rel, "op": op, "site": desc, "line": line, "noticed_by": noticed(rel, src), "_src": src}


def main():
    out = Path(sys.argv[1])
    out.mkdir(parents=True, exist_ok=True)
    P = Program(str(MU.src_dir()))
    fns = set()
    for pid in PIDS:
        mod = importlib.import_module(f"rules.{pid.lower()}")
        rep = Report(pid, "quick")
        rep.program_stats = P.stats()
        mod.run(P, rep, "quick")
        fns |= {f for f in rep.analysed_functions if f in P.functions}
    work = []
    for q in sorted(fns):
        fi = P.functions[q]
        rel = fi.module.path.relative_to(MU.src_dir()).as_posix()
        tail = q[len(fi.module.name) + 1:].split(".") if fi.module.name else q.split(".")
        fn = MU._fn_nodes(ast.parse(fi.module.source), tail)
        if fn is None:
            continue
        nodes = list(ast.walk(fn))
        for op, idx, desc in MU.candidate_sites(fn):
            m = MU.make_mutant(fi.module.source, tail, op, idx)
            if m is not None:
                work.append((q, rel, op, idx, desc, getattr(nodes[idx], "lineno", 0), m))
    print(len(fns), "functions,", len(work), "mutants", flush=True)
    with ProcessPoolExecutor(max_workers=16) as ex:
        res = list(ex.map(job, work, chunksize=4))
    surv = [r for r in res if not r["noticed_by"]]
    print("noticed by some check:", len(res) - len(surv), " global survivors:", len(surv))
    with open(out / "survivors.jsonl", "w") as fh:
        for i, r in enumerate(surv):
            src = r.pop("_src")
            r["id"] = i
            (out / f"mutant_{i}.py").write_text(src)
            fh.write(json.dumps(r) + "\n")


if __name__ == "__main__":
    main()
