#!/venv/bin/python
"""show.py <module qual> <func qual tail> ... : print functions of the analysed program compactly (unparsed, no docstrings)"""
import sys, ast
from pathlib import Path
sys.path.insert(0, str(Path(__file__).resolve().parent.parent))
from mdsa.loader import Program
P = Program()
for q in sys.argv[1:]:
    fi = P.functions.get(q)
    if fi is None:
        cands = [k for k in P.functions if k.endswith(q)]
        if len(cands) != 1:
            print("??", q, cands[:5]); continue
        fi = P.functions[cands[0]]
    n = fi.node
    b = n.body
    if b and isinstance(b[0], ast.Expr) and isinstance(b[0].value, ast.Constant) and isinstance(b[0].value.value, str):
        import copy
        n = copy.copy(n); n.body = b[1:] or [ast.Pass()]
    print(f"# {fi.qual}  ({fi.module.relpath}:{fi.node.lineno})")
    print(ast.unparse(n)); print()
