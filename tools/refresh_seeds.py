#!/venv/bin/python
"""Re-run all checks on every kept seeded change and refresh `checks_that_fire` in its meta.json (the recorded
first-contact facts are never touched)."""
import json, sys
from concurrent.futures import ProcessPoolExecutor
from pathlib import Path
V = Path(__file__).resolve().parent.parent
sys.path.insert(0, str(V))
from tools.try_seed import run as try_run

def job(m):
    m = Path(m)
    d = json.loads(m.read_text())
    found = try_run(m.parent / "patch.diff")
    own = [x for x in found.get(d["property"], []) if not x.startswith(("EXIT2", "CRASH"))]
    d["checks_that_fire"] = found
    rules = sorted({x.split(" @ ")[0] for x in own})
    if d.get("caught_by") not in rules:
        d["caught_by"] = rules[0] if rules else None
    m.write_text(json.dumps(d, indent=1))
    return m.parent.name, d["caught_by"]

if __name__ == "__main__":
    metas = sorted(str(p) for p in (V / "seeded").glob("*/meta.json"))
    with ProcessPoolExecutor(max_workers=16) as ex:
        res = list(ex.map(job, metas))
    missed = [n for n, c in res if not c]
    print(len(res), "seeded changes refreshed; not caught by their own check:", missed)
