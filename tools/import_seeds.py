#!/venv/bin/python
"""Import verified seeded changes from /tmp/seeded + /tmp/vw results into /verif/seeded/<Cxx>_<k>/."""
import json, shutil, sys
from pathlib import Path
V = Path(__file__).resolve().parent.parent
sys.path.insert(0, str(V))
from tools.try_seed import run as try_run

for res in sorted(Path("/tmp/vw").glob("*.result")):
    line = res.read_text().strip()
    sid = line.split()[0]                     # C01/a
    pid, k = sid.split("/")
    if "demo_clean=0 demo_patched=1" not in line or "66 passed" not in line or "284 passed" not in line:
        print("NOT CONFIRMED", line); continue
    src = Path("/tmp/seeded") / pid / k
    dst = V / "seeded" / f"{pid}_{k}"
    dst.mkdir(parents=True, exist_ok=True)
    applied = Path(f"/tmp/vw/{pid}_{k}.applied.diff")
    shutil.copy(applied if applied.exists() and applied.stat().st_size else src / "patch.diff", dst / "patch.diff")
    shutil.copy(src / "demo.py", dst / "demo.py")
    meta = json.loads((src / "meta.json").read_text())
    found = try_run(dst / "patch.diff")
    own = found.get(pid, [])
    caught_rule = own[0].split(" @ ")[0] if own and not own[0].startswith(("EXIT2", "CRASH")) else None
    out = {
        "property": pid,
        "summary": meta.get("summary"),
        "needs_to_manifest": meta.get("needs_to_manifest"),
        "files": meta.get("files"),
        "origin": "independent sub-agent given only the property text and its own scratch worktree (nothing from /verif)",
        "confirmed_by_me": {
            "worktree": "fresh `git worktree add --detach` of /repo HEAD under /tmp/vw, removed afterwards",
            "patch_applies": True,
            "baseline_cmd": "PYTHONPATH=<wt>/src /venv/bin/python -m pytest -q -p no:cacheprovider --timeout=900 --continue-on-collection-errors",
            "baseline_result": line.split("| base: ")[1].split(" | upstream")[0],
            "upstream_cmd": "PYTHONPATH=/verif/tools/triage:<wt>/src /venv/bin/python -m pytest -q -p no:cacheprovider tests/ih5 tests/container tests/schema tests/plugin tests/packer tests/util",
            "upstream_result": line.split("| upstream: ")[1],
            "demo": "PYTHONPATH=/verif/tools/triage:<tree>/src /venv/bin/python demo.py -> exit 0 (PASS) on the unchanged tree, exit 1 (FAIL) with the patch",
        },
        "checks_that_fire": found,
        "caught_by": caught_rule,
    }
    (dst / "meta.json").write_text(json.dumps(out, indent=1))
    print(sid, "caught_by", caught_rule, "| all:", {k2: v for k2, v in found.items()})
