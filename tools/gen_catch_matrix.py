#!/usr/bin/env python3
"""Regenerate the catch matrix in DESIGN.md from seeded/*/meta.json."""
import json, re
from pathlib import Path
V = Path(__file__).resolve().parent.parent
rows = []
for m in sorted((V / "seeded").glob("*/meta.json")):
    d = json.loads(m.read_text())
    fires = d.get("checks_that_fire", {})
    others = sorted(k for k in fires if k != d["property"])
    first = d.get("first_contact")
    rows.append(f"| `{m.parent.name}` | {d['property']} | {(d.get('summary') or '')[:150].replace('|', '/')} | {d.get('caught_by') or '**missed**'} | {', '.join(others) or '–'} | {first or 'round 1: rule written or adjusted after seeing the change'} |")
table = "| seeded change | property | what was changed | caught by (own check) | also fires | first contact |\n|---|---|---|---|---|---|\n" + "\n".join(rows)
p = V / "DESIGN.md"
s = p.read_text()
a = s.index("<!-- CATCH-MATRIX-BEGIN -->")
b = s.index("<!-- CATCH-MATRIX-END -->")
s = s[:a] + "<!-- CATCH-MATRIX-BEGIN -->\n" + table + "\n" + s[b:]
p.write_text(s)
print(len(rows), "rows")
