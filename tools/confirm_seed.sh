#!/bin/bash
# confirm_seed.sh <Cnn> <k> <delivery root> <result dir>: confirm a delivered seeded change in a fresh scratch worktree of /repo:
# patch applies, demo PASSes on the clean tree and FAILs with the patch, both test suites give the expected counts.
# Writes <result dir>/<Cnn>_<k>.result and <Cnn>_<k>.applied.diff; removes the worktree.
pid=$1; k=$2; root=$3; out=$4
src=$root/$pid/$k
wt=$out/wt_${pid}_$k
mkdir -p $out
git -C /repo worktree add --detach $wt >/dev/null 2>&1 || { echo "$pid/$k worktree failed" > $out/${pid}_$k.result; exit 0; }
cd $wt
SH=/verif/tools/triage
PYTHONPATH=$SH:$wt/src timeout 900 /venv/bin/python $src/demo.py >/dev/null 2>&1; dc=$?
if git apply $src/patch.diff 2>/dev/null; then ap=1; else ap=0; fi
git diff > $out/${pid}_$k.applied.diff
PYTHONPATH=$SH:$wt/src timeout 900 /venv/bin/python $src/demo.py >/dev/null 2>&1; dp=$?
base=$(PYTHONPATH=$wt/src /venv/bin/python -m pytest -q -p no:cacheprovider --timeout=900 --continue-on-collection-errors 2>&1 | tail -1)
up=$(PYTHONPATH=$SH:$wt/src /venv/bin/python -m pytest -q -p no:cacheprovider tests/ih5 tests/container tests/schema tests/plugin tests/packer tests/util 2>&1 | tail -1)
echo "$pid/$k applies=$ap demo_clean=$dc demo_patched=$dp | base: $base | upstream: $up" > $out/${pid}_$k.result
cd /
git -C /repo worktree remove --force $wt >/dev/null 2>&1
