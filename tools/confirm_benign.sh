#!/bin/bash
# confirm_benign.sh <area> <k> <delivery root> <result dir>: confirm a delivered property-keeping commit in a fresh scratch
# worktree of /repo: patch applies, both test suites give the expected counts. Writes <result dir>/<area>_<k>.result and
# <area>_<k>.applied.diff; removes the worktree.
a=$1; k=$2; root=$3; out=$4
src=$root/$a/$k
wt=$out/wt_${a}_$k
mkdir -p $out
git -C /repo worktree add --detach $wt >/dev/null 2>&1 || { echo "$a/$k worktree failed" > $out/${a}_$k.result; exit 0; }
cd $wt
SH=/verif/tools/triage
if git apply $src/patch.diff 2>/dev/null; then ap=1; else ap=0; fi
git diff > $out/${a}_$k.applied.diff
base=$(PYTHONPATH=$wt/src /venv/bin/python -m pytest -q -p no:cacheprovider --timeout=900 --continue-on-collection-errors 2>&1 | tail -1)
up=$(PYTHONPATH=$SH:$wt/src /venv/bin/python -m pytest -q -p no:cacheprovider tests/ih5 tests/container tests/schema tests/plugin tests/packer tests/util 2>&1 | tail -1)
echo "$a/$k applies=$ap | base: $base | upstream: $up" > $out/${a}_$k.result
cd /
git -C /repo worktree remove --force $wt >/dev/null 2>&1
