#!/venv/bin/python
"""Apply a seeded patch in memory and report which checks fire.
usage: tools/try_seed.py <patch.diff> [<patch.diff> ...]   (or directories containing patch.diff)"""
import importlib, sys, json, re
from pathlib import Path
V = Path(__file__).resolve().parent.parent
sys.path.insert(0, str(V))
from selftest.harness import overlay_from_diff, src_dir
from mdsa.loader import Program, AnalysisError
from mdsa.report import Report, _load_known

VERBOSE = False
ONLY = None

def run(diff: Path):
    ov = overlay_from_diff(diff)
    if ov is None:
        return {"error": "patch does not apply"}
    P = Program(str(src_dir()), overlay=ov)
    out = {}
    for rf in sorted((V / "rules").glob("c[0-9][0-9].py")):
        pid = rf.stem.upper()
        if ONLY and pid not in ONLY:
            continue
        mod = importlib.import_module(f"rules.{rf.stem}")
        rep = Report(pid, "quick"); rep.program_stats = P.stats()
        try:
            mod.run(P, rep, "quick")
        except AnalysisError as e:
            out[pid] = [f"EXIT2: {e}"]; continue
        except Exception as e:
            out[pid] = [f"CRASH: {type(e).__name__}: {e}"]; continue
        known = {k["key"] for k in _load_known().get("known", []) if k.get("property") == pid}
        if VERBOSE:
            new = sorted({f"{f.rule} @ {f.func} :: {f.construct[:90]} :: {f.message[:160]}" for f in rep.findings if f.key not in known})
        else:
            new = sorted({f"{f.rule} @ {f.func}" for f in rep.findings if f.key not in known})
        if new:
            out[pid] = new
        elif rep.analysis_errors:
            out[pid] = ["EXIT2: " + "; ".join(rep.analysis_errors)[:200]]
    return out

if __name__ == "__main__":
    args = sys.argv[1:]
    if "-v" in args:
        VERBOSE = True
        args.remove("-v")
    for a in list(args):
        if re.fullmatch(r"C\d\d(,C\d\d)*", a):
            ONLY = set(a.split(","))
            args.remove(a)
    for a in args:
        p = Path(a)
        if p.is_dir():
            p = p / "patch.diff"
        r = run(p)
        if VERBOSE:
            print(p)
            for k, v in r.items():
                for x in v:
                    print("   ", k, x)
        else:
            print(f"{p}: {json.dumps(r)}")
