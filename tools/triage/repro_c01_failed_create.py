import tempfile, os, numpy as np
from metador_core.ih5.record import IH5Record
d = tempfile.mkdtemp()
os.chdir(d)
with IH5Record("rec", "w") as r:
    r["x"] = 1
    g = r.create_group("g"); g["y"] = 2
    r.commit_patch()
    r.create_patch()
    del r["x"]
    assert "x" not in r
    try:
        r.create_dataset("x", data=object())   # h5py refuses: no conversion for object dtype
    except Exception as e:
        print("create failed:", type(e).__name__)
    print("x visible after failed create:", "x" in r, "(single tree: False)")
    del r["g"]
    try:
        r.create_dataset("g", data=object())
    except Exception as e:
        print("create failed:", type(e).__name__)
    print("g visible after failed create:", "g" in r, list(r["g"].keys()) if "g" in r else None)
