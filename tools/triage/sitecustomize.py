import numpy as np
for a,b in [("cumproduct","cumprod"),("product","prod"),("sometrue","any"),("alltrue","all"),("in1d","isin"),("trapz","trapezoid"),("row_stack","vstack")]:
    if not hasattr(np,a) and hasattr(np,b):
        setattr(np,a,getattr(np,b))
for a,b in [("bool8","bool_"),("float_","float64"),("complex_","complex128"),("unicode_","str_"),("string_","bytes_"),("object0","object_"),("int0","intp"),("uint0","uintp"),("NaN","nan"),("Inf","inf"),("infty","inf"),("PINF","inf"),("NINF",None)]:
    if not hasattr(np,a) and b and hasattr(np,b):
        setattr(np,a,getattr(np,b))
