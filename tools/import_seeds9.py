#!/venv/bin/python
"""Import confirmed round-9 (blind) seeded changes into /verif/seeded/<Cxx>_r6<k>/."""
import json, shutil, sys
from pathlib import Path
V = Path(__file__).resolve().parent.parent
sys.path.insert(0, str(V))
from tools.try_seed import run as try_run
BLIND_OWN, BLIND_OTHER, BLIND_EXIT2 = set(), {}, set()
for _l in (V / "seeded_round9_raw" / "first_contact.txt").read_text().splitlines():
    _sid, _rest = _l.split(" ", 1)
    _found = json.loads(_rest.split(": ", 1)[1])
    _own = _found.get(_sid.split("/")[0], [])
    if _own and not _own[0].startswith(("EXIT2", "CRASH")):
        BLIND_OWN.add(_sid)
    elif _own:
        BLIND_EXIT2.add(_sid)
    else:
        _others = sorted({x.split(" @ ")[0] for v in _found.values() for x in v if not x.startswith(("EXIT2", "CRASH"))})
        if _others:
            BLIND_OTHER[_sid] = ", ".join(_others)
only = set(sys.argv[1:])
for res in sorted(Path("/tmp/vw9").glob("*.result")):
    line = res.read_text().strip()
    sid = line.split()[0]
    if only and sid not in only: continue
    pid, k = sid.split("/")
    if "applies=1 demo_clean=0 demo_patched=1" not in line or "66 passed" not in line or "284 passed" not in line:
        print("NOT CONFIRMED", line); continue
    src = Path("/tmp/seeded9") / pid / k
    dst = V / "seeded" / f"{pid}_r9{k}"
    dst.mkdir(parents=True, exist_ok=True)
    applied = Path(f"/tmp/vw9/{pid}_{k}.applied.diff")
    shutil.copy(applied if applied.exists() and applied.stat().st_size else src / "patch.diff", dst / "patch.diff")
    shutil.copy(src / "demo.py", dst / "demo.py")
    meta = json.loads((src / "meta.json").read_text())
    found = try_run(dst / "patch.diff")
    own = found.get(pid, [])
    caught_rule = own[0].split(" @ ")[0] if own and not own[0].startswith(("EXIT2", "CRASH")) else None
    first = "caught by the property's own check on first (blind) contact" if sid in BLIND_OWN else "property's own check stopped with ANALYSIS-ERROR (exit 2, unrecognised shape) on first (blind) contact; rule made decisive afterwards" if sid in BLIND_EXIT2 else (f"MISSED by the property's own check on first (blind) contact (another property's check fired: {BLIND_OTHER[sid]}); rule added afterwards" if sid in BLIND_OTHER else "MISSED by every check on first (blind) contact; rule added afterwards")
    out = {"property": pid, "round": 9, "summary": meta.get("summary"), "needs_to_manifest": meta.get("needs_to_manifest"), "files": meta.get("files"),
        "origin": "independent sub-agent given only the property text, the one-line summaries of the earlier seeded changes to avoid, and its own scratch worktree (nothing from /verif)",
        "first_contact": first,
        "confirmed_by_me": {"worktree": "fresh `git worktree add --detach` of /repo HEAD under /tmp/vw9, removed afterwards", "patch_applies": True,
            "baseline_result": line.split("| base: ")[1].split(" | upstream")[0], "upstream_result": line.split("| upstream: ")[1],
            "demo": "exit 0 (PASS) on the unchanged tree, exit 1 (FAIL) with the patch (PYTHONPATH=/verif/tools/triage:<tree>/src /venv/bin/python demo.py)"},
        "checks_that_fire": found, "caught_by": caught_rule}
    (dst / "meta.json").write_text(json.dumps(out, indent=1))
    print(sid, "caught_by", caught_rule)
