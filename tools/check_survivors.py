#!/venv/bin/python
"""Re-run all 20 checks on recorded global survivors (tools/global_survivors.py output dir) and print which are noticed now.
usage: check_survivors.py <dir> [file-substring] [ids.json]"""
import json, sys
from concurrent.futures import ProcessPoolExecutor
from pathlib import Path
V = Path(__file__).resolve().parent.parent
sys.path.insert(0, str(V))
from tools.global_survivors import noticed
d = Path(sys.argv[1]); sub = sys.argv[2] if len(sys.argv) > 2 else ""
ids = set(json.load(open(sys.argv[3]))) if len(sys.argv) > 3 else None
rows = [json.loads(l) for l in open(d / "survivors.jsonl")]
rows = [r for r in rows if sub in r["file"] and (ids is None or r["id"] in ids)]
def job(r):
    return r, noticed(r["file"], (d / f"mutant_{r['id']}.py").read_text())
if __name__ == "__main__":
    with ProcessPoolExecutor(max_workers=16) as ex:
        res = list(ex.map(job, rows))
    left = 0
    for r, n in sorted(res, key=lambda t: (t[0]["file"], t[0]["line"])):
        if not n:
            left += 1
        print(f"{r['id']:4d} {r['file']}:{r['line']} {r['function'].split('.',2)[-1][:40]:40s} {r['op']:14s} {r['site'][:50]:50s} -> {','.join(n) or 'SURVIVES'}")
    print(left, "of", len(res), "still survive")
