"""Metamorphic self-test of the checkers: programs that are equivalent *by construction* must get the same verdict.

Every transformation below is behaviour preserving for all inputs (it keeps evaluation order, side effects, bound
names visible to other scopes and exception behaviour).  Each is applied to every module of the package at once (in
memory: AST rewrite + unparse + loader overlay), then all rules of a property are run on the result.  A finding or an
ANALYSIS-ERROR on a transformed program is a false alarm of the checker and fails the self-test.

  rename-locals   every local variable of every function gets a new name (parameters, globals, nonlocals, names
                  rebound in nested scopes and names used by nested scopes that rebind them are left alone)
  flip-if         if C: A else: B              ->  if not C: B else: A
  split-and       if A and B: X                ->  if A: (if B: X)               (no else branch)
  merge-if        if A: (if B: X)              ->  if A and B: X                 (no else branches)
  else-after-jump if C: <..return/raise/continue/break>; REST  ->  if C: <..> else: REST
  de-morgan       not (A and B) / not (A or B) ->  not A or not B / not A and not B
  len-compare     len(x) > 1 -> len(x) >= 2,  not len(x) -> len(x) == 0,  len(x) == 0 -> not len(x)
  walrus-split    if (v := e): ...             ->  v = e; if v: ...
  ifexp-return    return a if c else b         ->  if c: return a else: return b   (same for single assignments)
  name-condition  if <compare / boolean expr>: ->  cond_k = <expr>; if cond_k:
  not-in-spelling a not in b / a is not b / a != b  ->  not a in b / not a is b / not a == b
  all             everything above, in this order
"""
from __future__ import annotations

import ast
import copy
import importlib
import os
import sys
from concurrent.futures import ProcessPoolExecutor
from pathlib import Path
from typing import Dict, List, Optional, Set, Tuple

VERIF = Path(__file__).resolve().parent.parent
if str(VERIF) not in sys.path:
    sys.path.insert(0, str(VERIF))

from mdsa.loader import DEFAULT_SRC, AnalysisError, Program  # noqa: E402
from mdsa.report import Report, _load_known  # noqa: E402

JUMPS = (ast.Return, ast.Raise, ast.Continue, ast.Break)


def src_dir() -> Path:
    return Path(os.environ.get("MDSA_SRC") or DEFAULT_SRC)


# --------------------------------------------------------------------------------------------- rename locals
def _own_scope_nodes(fn):
    """nodes of fn's own scope (not descending into nested functions / lambdas / classes / comprehensions)"""
    todo = list(ast.iter_child_nodes(fn))
    while todo:
        n = todo.pop()
        yield n
        if isinstance(n, (ast.FunctionDef, ast.AsyncFunctionDef, ast.Lambda, ast.ClassDef, ast.ListComp, ast.SetComp, ast.DictComp, ast.GeneratorExp)):
            continue
        todo.extend(ast.iter_child_nodes(n))


def _binds(scope) -> Set[str]:
    """names bound in the scope itself (for nested scopes: includes parameters)"""
    out: Set[str] = set()
    if isinstance(scope, (ast.FunctionDef, ast.AsyncFunctionDef, ast.Lambda)):
        a = scope.args
        out |= {x.arg for x in a.posonlyargs + a.args + a.kwonlyargs}
        if a.vararg:
            out.add(a.vararg.arg)
        if a.kwarg:
            out.add(a.kwarg.arg)
    if isinstance(scope, (ast.ListComp, ast.SetComp, ast.DictComp, ast.GeneratorExp)):
        for g in scope.generators:
            out |= {x.id for x in ast.walk(g.target) if isinstance(x, ast.Name)}
        return out
    if isinstance(scope, ast.Lambda):
        return out
    for n in _own_scope_nodes(scope):
        if isinstance(n, ast.Name) and isinstance(n.ctx, (ast.Store, ast.Del)):
            out.add(n.id)
        elif isinstance(n, ast.ExceptHandler) and n.name:
            out.add(n.name)
        elif isinstance(n, (ast.Import, ast.ImportFrom)):
            out |= {(al.asname or al.name).split(".")[0] for al in n.names}
        elif isinstance(n, (ast.FunctionDef, ast.AsyncFunctionDef, ast.ClassDef)):
            out.add(n.name)
    return out


class RenameLocals(ast.NodeTransformer):
    def __init__(self):
        self.count = 0

    def _rename_in(self, fn):
        params = set()
        a = fn.args
        params |= {x.arg for x in a.posonlyargs + a.args + a.kwonlyargs}
        if a.vararg:
            params.add(a.vararg.arg)
        if a.kwarg:
            params.add(a.kwarg.arg)
        declared: Set[str] = set()
        special: Set[str] = set()
        stored: Set[str] = set()
        for n in _own_scope_nodes(fn):
            if isinstance(n, (ast.Global, ast.Nonlocal)):
                declared |= set(n.names)
            elif isinstance(n, ast.Name) and isinstance(n.ctx, (ast.Store, ast.Del)):
                stored.add(n.id)
            elif isinstance(n, ast.ExceptHandler) and n.name:
                special.add(n.name)
            elif isinstance(n, (ast.Import, ast.ImportFrom)):
                special |= {(al.asname or al.name).split(".")[0] for al in n.names}
            elif isinstance(n, (ast.FunctionDef, ast.AsyncFunctionDef, ast.ClassDef)):
                special.add(n.name)
            elif isinstance(n, ast.Call) and isinstance(n.func, ast.Name) and n.func.id in ("locals", "vars", "eval", "exec", "dir"):
                return  # introspection: leave the function alone
        # walrus targets inside comprehensions bind in this scope too
        for n in ast.walk(fn):
            if isinstance(n, ast.NamedExpr):
                stored.add(n.target.id)
        cands = stored - params - declared - special
        # names rebound by a nested scope, or declared nonlocal there: leave alone
        nested = [n for n in ast.walk(fn) if n is not fn and isinstance(n, (ast.FunctionDef, ast.AsyncFunctionDef, ast.Lambda, ast.ListComp, ast.SetComp, ast.DictComp, ast.GeneratorExp, ast.ClassDef))]
        for sc in nested:
            if isinstance(sc, ast.ClassDef):
                cands -= {x.id for x in ast.walk(sc) if isinstance(x, ast.Name)}
                continue
            cands -= _binds(sc)
            for x in ast.walk(sc):
                if isinstance(x, (ast.Global, ast.Nonlocal)):
                    cands -= set(x.names)
        all_names = {x.id for x in ast.walk(fn) if isinstance(x, ast.Name)} | params
        mapping = {}
        for c in sorted(cands):
            if c.startswith("__") or c == "_":
                continue
            new = f"{c}_r"
            while new in all_names:
                new += "r"
            mapping[c] = new
        if not mapping:
            return
        for n in ast.walk(fn):
            if isinstance(n, ast.Name) and n.id in mapping:
                n.id = mapping[n.id]
        self.count += len(mapping)

    def visit_FunctionDef(self, node):
        self.generic_visit(node)  # inner functions first (their own locals)
        self._rename_in(node)
        return node

    visit_AsyncFunctionDef = visit_FunctionDef


# --------------------------------------------------------------------------------------------- statement-level rewrites
def _neg(e: ast.AST) -> ast.AST:
    return ast.UnaryOp(op=ast.Not(), operand=e)


class FlipIf(ast.NodeTransformer):
    def visit_If(self, node):
        self.generic_visit(node)
        if node.orelse and not (len(node.orelse) == 1 and isinstance(node.orelse[0], ast.If)):
            node.test, node.body, node.orelse = _neg(node.test), node.orelse, node.body
        return node


class SplitAnd(ast.NodeTransformer):
    def visit_If(self, node):
        self.generic_visit(node)
        if not node.orelse and isinstance(node.test, ast.BoolOp) and isinstance(node.test.op, ast.And) and len(node.test.values) >= 2:
            first, rest = node.test.values[0], node.test.values[1:]
            inner = ast.If(test=rest[0] if len(rest) == 1 else ast.BoolOp(op=ast.And(), values=rest), body=node.body, orelse=[])
            return ast.copy_location(ast.If(test=first, body=[inner], orelse=[]), node)
        return node


class MergeIf(ast.NodeTransformer):
    def visit_If(self, node):
        self.generic_visit(node)
        if not node.orelse and len(node.body) == 1 and isinstance(node.body[0], ast.If) and not node.body[0].orelse:
            inner = node.body[0]
            node.test = ast.BoolOp(op=ast.And(), values=[node.test, inner.test])
            node.body = inner.body
        return node


class ElseAfterJump(ast.NodeTransformer):
    def _block(self, body: List[ast.stmt]) -> List[ast.stmt]:
        out: List[ast.stmt] = []
        i = 0
        while i < len(body):
            st = body[i]
            if isinstance(st, ast.If) and not st.orelse and st.body and isinstance(st.body[-1], JUMPS) and i + 1 < len(body):
                rest = self._block(body[i + 1:])
                st.orelse = rest
                out.append(st)
                return out
            out.append(st)
            i += 1
        return out

    def generic_visit(self, node):
        super().generic_visit(node)
        for fld in ("body", "orelse", "finalbody"):
            b = getattr(node, fld, None)
            if isinstance(b, list) and b and isinstance(b[0], ast.stmt) and not isinstance(node, ast.ClassDef):
                setattr(node, fld, self._block(b))
        return node


class DeMorgan(ast.NodeTransformer):
    def visit_UnaryOp(self, node):
        self.generic_visit(node)
        if isinstance(node.op, ast.Not) and isinstance(node.operand, ast.BoolOp):
            op = ast.Or() if isinstance(node.operand.op, ast.And) else ast.And()
            return ast.copy_location(ast.BoolOp(op=op, values=[_neg(v) for v in node.operand.values]), node)
        return node


class LenCompare(ast.NodeTransformer):
    @staticmethod
    def _is_len(e):
        return isinstance(e, ast.Call) and isinstance(e.func, ast.Name) and e.func.id == "len" and len(e.args) == 1 and not e.keywords

    def visit_Compare(self, node):
        self.generic_visit(node)
        if len(node.ops) == 1 and self._is_len(node.left) and isinstance(node.comparators[0], ast.Constant) and isinstance(node.comparators[0].value, int) and not isinstance(node.comparators[0].value, bool):
            n = node.comparators[0].value
            if isinstance(node.ops[0], ast.Gt):
                return ast.copy_location(ast.Compare(left=node.left, ops=[ast.GtE()], comparators=[ast.Constant(value=n + 1)]), node)
            if isinstance(node.ops[0], ast.Eq) and n == 0:
                return ast.copy_location(_neg(node.left), node)
        return node

    def visit_UnaryOp(self, node):
        self.generic_visit(node)
        if isinstance(node.op, ast.Not) and self._is_len(node.operand):
            return ast.copy_location(ast.Compare(left=node.operand, ops=[ast.Eq()], comparators=[ast.Constant(value=0)]), node)
        return node


class _BlockRewriter(ast.NodeTransformer):
    """helper: rewrite statements of every statement list with self.stmt(st) -> list of statements"""

    def stmt(self, st: ast.stmt) -> List[ast.stmt]:
        return [st]

    def generic_visit(self, node):
        super().generic_visit(node)
        for fld in ("body", "orelse", "finalbody"):
            b = getattr(node, fld, None)
            if isinstance(b, list) and b and isinstance(b[0], ast.stmt):
                new: List[ast.stmt] = []
                for st in b:
                    new += self.stmt(st)
                setattr(node, fld, new)
        return node


class WalrusSplit(_BlockRewriter):
    def stmt(self, st):
        if isinstance(st, ast.If) and isinstance(st.test, ast.NamedExpr):
            ne = st.test
            a = ast.copy_location(ast.Assign(targets=[ast.Name(id=ne.target.id, ctx=ast.Store())], value=ne.value), st)
            st.test = ast.Name(id=ne.target.id, ctx=ast.Load())
            return [a, st]
        return [st]


class IfExpReturn(_BlockRewriter):
    def stmt(self, st):
        if isinstance(st, ast.Return) and isinstance(st.value, ast.IfExp):
            e = st.value
            return [ast.copy_location(ast.If(test=e.test, body=[ast.Return(value=e.body)], orelse=[ast.Return(value=e.orelse)]), st)]
        if isinstance(st, ast.Assign) and isinstance(st.value, ast.IfExp) and len(st.targets) == 1 and isinstance(st.targets[0], ast.Name):
            e = st.value
            t = st.targets[0]
            return [ast.copy_location(ast.If(test=e.test, body=[ast.Assign(targets=[copy.deepcopy(t)], value=e.body)], orelse=[ast.Assign(targets=[copy.deepcopy(t)], value=e.orelse)]), st)]
        return [st]


class NameCondition(_BlockRewriter):
    def __init__(self):
        self.k = 0
        self.used: Set[str] = set()

    def visit_Module(self, node):
        self.used = {x.id for x in ast.walk(node) if isinstance(x, ast.Name)}
        return self.generic_visit(node)

    def stmt(self, st):
        if isinstance(st, ast.If) and isinstance(st.test, (ast.Compare, ast.BoolOp)) and not any(isinstance(x, ast.NamedExpr) for x in ast.walk(st.test)):
            self.k += 1
            nm = f"cond_{self.k}"
            while nm in self.used:
                self.k += 1
                nm = f"cond_{self.k}"
            a = ast.copy_location(ast.Assign(targets=[ast.Name(id=nm, ctx=ast.Store())], value=st.test), st)
            st.test = ast.Name(id=nm, ctx=ast.Load())
            return [a, st]
        return [st]


class NotInSpelling(ast.NodeTransformer):
    M = {ast.NotIn: ast.In, ast.IsNot: ast.Is, ast.NotEq: ast.Eq}

    def visit_Compare(self, node):
        self.generic_visit(node)
        if len(node.ops) == 1 and type(node.ops[0]) in self.M:
            return ast.copy_location(_neg(ast.Compare(left=node.left, ops=[self.M[type(node.ops[0])]()], comparators=node.comparators)), node)
        return node


TRANSFORMS = {
    "rename-locals": [RenameLocals],
    "flip-if": [FlipIf],
    "split-and": [SplitAnd],
    "merge-if": [MergeIf],
    "else-after-jump": [ElseAfterJump],
    "de-morgan": [DeMorgan],
    "len-compare": [LenCompare],
    "walrus-split": [WalrusSplit],
    "ifexp-return": [IfExpReturn],
    "name-condition": [NameCondition],
    "not-in-spelling": [NotInSpelling],
}
TRANSFORMS["all"] = [t for k in ("walrus-split", "ifexp-return", "else-after-jump", "flip-if", "merge-if", "de-morgan", "len-compare", "not-in-spelling", "rename-locals") for t in TRANSFORMS[k]]


def transformed_overlay(name: str) -> Dict[str, str]:
    out: Dict[str, str] = {}
    for f in sorted(src_dir().rglob("*.py")):
        rel = f.relative_to(src_dir()).as_posix()
        src = f.read_text(encoding="utf-8")
        try:
            tree = ast.parse(src)
        except SyntaxError:
            continue
        for T in TRANSFORMS[name]:
            tree = T().visit(tree)
        ast.fix_missing_locations(tree)
        new = ast.unparse(tree)
        ast.parse(new)
        out[rel] = new
    return out


def _job(args) -> dict:
    pid, name = args
    try:
        ov = transformed_overlay(name)
        P = Program(str(src_dir()), overlay=ov)
        mod = importlib.import_module(f"rules.{pid.lower()}")
        rep = Report(pid, "quick")
        rep.program_stats = P.stats()
        mod.run(P, rep, "quick")
        known = {k["key"] for k in _load_known().get("known", []) if k.get("property") == pid}
        new = sorted({f"{f.rule} @ {f.func} :: {f.construct[:70]}" for f in rep.findings if f.key not in known})
        err = [e[:160] for e in rep.analysis_errors]
        return {"property": pid, "transform": name, "findings": new, "analysis_errors": err}
    except AnalysisError as e:
        return {"property": pid, "transform": name, "findings": [], "analysis_errors": [str(e)[:200]]}
    except Exception as e:
        import traceback

        return {"property": pid, "transform": name, "findings": [], "analysis_errors": [f"CRASH {type(e).__name__}: {e}", traceback.format_exc()[-300:]]}


def run(pids: List[str], names: Optional[List[str]] = None, jobs: int = 16) -> List[dict]:
    names = names or list(TRANSFORMS)
    work = [(p, n) for p in pids for n in names]
    with ProcessPoolExecutor(max_workers=jobs) as ex:
        return list(ex.map(_job, work))


def main():
    args = [a for a in sys.argv[1:]]
    names = [a for a in args if a in TRANSFORMS] or None
    pids = [a.upper() for a in args if a not in TRANSFORMS] or sorted(p.stem.upper() for p in (VERIF / "rules").glob("c[0-9][0-9].py"))
    import subprocess

    for pid in pids:  # the clean tree must pass first (otherwise every transformed program fails the same way)
        r0 = subprocess.run([str(VERIF / "check"), pid, "--tier", "quick"], capture_output=True, text=True)
        if r0.returncode != 0:
            print(f"{pid} does not pass on the untransformed tree (exit {r0.returncode}); fix that first")
            sys.exit(2)
    bad = 0
    for r in run(pids, names):
        if r["findings"] or r["analysis_errors"]:
            bad += 1
            print(f"{r['property']} {r['transform']}:")
            for x in r["findings"][:8]:
                print("    FALSE-ALARM", x)
            for x in r["analysis_errors"][:2]:
                print("    EXIT2", x[:200].replace("\n", " "))
    print(f"{bad} (property, transform) pairs with false alarms / analysis errors")
    sys.exit(1 if bad else 0)


if __name__ == "__main__":
    main()
