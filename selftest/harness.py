"""Checker self-test: every rule is tested both ways on variants of /repo's current sources.

A variant is a dict:
  name   unique id
  file   path relative to src/metador_core
  old    exact snippet that must occur exactly once in that file (else the variant is *skipped*)
  new    replacement
  fires  rule id (prefix) that must be reported  |  None for neutral twins that must stay silent
  func   (optional) substring that must occur in the reported function / construct
or  {name, diff: <path to unified diff relative to /verif>, fires}  for patch-based variants
(the reverse patches of the fix: commits and the seeded changes under /verif/seeded).

Variants are applied in memory (loader overlay); nothing is written into /repo.
"""
from __future__ import annotations

import importlib
import json
import os
import re
import shutil
import subprocess
import sys
import tempfile
import time
import traceback
from concurrent.futures import ProcessPoolExecutor
from pathlib import Path
from typing import Dict, List, Optional

VERIF = Path(__file__).resolve().parent.parent
if str(VERIF) not in sys.path:
    sys.path.insert(0, str(VERIF))

from mdsa.loader import DEFAULT_SRC, AnalysisError, Program  # noqa: E402
from mdsa.report import Report  # noqa: E402


def src_dir() -> Path:
    return Path(os.environ.get("MDSA_SRC") or DEFAULT_SRC)


def overlay_from_snippet(v) -> Optional[Dict[str, str]]:
    edits = v.get("edits") or [v]
    out: Dict[str, str] = {}
    for e in edits:
        p = src_dir() / e["file"]
        if not p.exists():
            return None
        s = out.get(e["file"]) or p.read_text()
        if s.count(e["old"]) != 1:
            return None
        out[e["file"]] = s.replace(e["old"], e["new"])
    return out


def overlay_from_diff(diff_path: Path) -> Optional[Dict[str, str]]:
    text = diff_path.read_text()
    files = re.findall(r"^\+\+\+ b/(\S+)", text, flags=re.M)
    pref = "src/metador_core/"
    tmp = Path(tempfile.mkdtemp(prefix="mdsa-st-"))
    try:
        for f in files:
            if not f.startswith(pref):
                continue
            src = src_dir() / f[len(pref):]
            dst = tmp / f
            dst.parent.mkdir(parents=True, exist_ok=True)
            if src.exists():
                shutil.copy(src, dst)
        r = subprocess.run(["patch", "-p1", "-s", "-f", "--no-backup-if-mismatch", "-d", str(tmp)], input=text, text=True, capture_output=True)
        if r.returncode != 0:
            return None
        out = {}
        for f in files:
            if f.startswith(pref) and (tmp / f).exists():
                out[f[len(pref):]] = (tmp / f).read_text()
        return out
    finally:
        shutil.rmtree(tmp, ignore_errors=True)


def run_variant(pid: str, v: dict) -> dict:
    t0 = time.time()
    res = {"name": v["name"], "expect": v.get("fires"), "status": "", "got": []}
    try:
        ov = overlay_from_diff(VERIF / v["diff"]) if "diff" in v else overlay_from_snippet(v)
        if ov is None:
            res["status"] = "skipped"
            return res
        P = Program(str(src_dir()), overlay=ov)
        mod = importlib.import_module(f"rules.{pid.lower()}")
        rep = Report(pid, "quick")
        rep.program_stats = P.stats()
        mod.run(P, rep, "quick")
        from mdsa.report import _load_known

        known = {k["key"] for k in _load_known().get("known", []) if k.get("property") == pid}
        new = [f for f in rep.findings if f.key not in known]
        res["got"] = sorted({f"{f.rule} @ {f.func}" for f in new})
        if rep.analysis_errors and not new:
            raise AnalysisError("; ".join(rep.analysis_errors))
        want = v.get("fires")
        if want is None:
            res["status"] = "ok" if not new else "FALSE-ALARM"
        else:
            hit = [f for f in new if f.rule.startswith(want) and (not v.get("func") or v["func"] in f.func or v["func"] in f.construct)]
            res["status"] = "ok" if hit else "MISSED"
    except AnalysisError as e:
        res["status"] = "ok" if v.get("exit2_ok") and not res["got"] else "ANALYSIS-ERROR"
        res["got"] = [f"exit2: {e}"]
    except Exception:
        res["status"] = "CRASH"
        res["got"] = [traceback.format_exc()[-400:]]
    res["wall_s"] = round(time.time() - t0, 3)
    return res


def variants_for(pid: str) -> List[dict]:
    out: List[dict] = []
    try:
        mod = importlib.import_module(f"selftest.variants.{pid.lower()}")
        out += list(mod.VARIANTS)
    except ModuleNotFoundError:
        pass
    # reverse patches of the fix: commits (pinned defects must fire)
    for d in sorted((VERIF / "selftest" / "pinned").glob(f"{pid}_*.diff")):
        rule = ".".join(d.name.split("_")[:2])
        out.append({"name": f"pinned:{d.stem}", "diff": f"selftest/pinned/{d.name}", "fires": rule})
    # seeded changes kept under /verif/seeded/<id>/ with "caught_by" recorded in meta.json
    for m in sorted((VERIF / "seeded").glob(f"{pid}*/meta.json")):
        meta = json.loads(m.read_text())
        if meta.get("property") != pid or not meta.get("caught_by"):
            continue
        out.append({"name": f"seeded:{m.parent.name}", "diff": f"seeded/{m.parent.name}/patch.diff", "fires": meta["caught_by"]})
    # behaviour-preserving refactorings written by independent engineers (selftest/neutral): no check may report anything,
    # an ANALYSIS-ERROR (exit 2) counts as failure too
    for d in sorted((VERIF / "selftest" / "neutral").glob("*/patch.diff")):
        out.append({"name": f"neutral:{d.parent.name}", "diff": f"selftest/neutral/{d.parent.name}/patch.diff", "fires": None})
    # changes that do alter behaviour (messages, new parameters, caching, earlier validation ..) but keep every property
    # (selftest/benign): silent as well
    for d in sorted((VERIF / "selftest" / "benign").glob("*/patch.diff")):
        out.append({"name": f"benign:{d.parent.name}", "diff": f"selftest/benign/{d.parent.name}/patch.diff", "fires": None})
    # behaviour-preserving restructurings whose correctness needs an argument the rules do not make (e.g. recursion turned
    # into an explicit work list): the accepted answers are silence or analysis-error (exit 2), never a VIOLATION
    for d in sorted((VERIF / "selftest" / "undecided").glob("*/patch.diff")):
        out.append({"name": f"undecided:{d.parent.name}", "diff": f"selftest/undecided/{d.parent.name}/patch.diff", "fires": None, "exit2_ok": True})
    return out


def run_for_property(pid: str, jobs: int = 16) -> dict:
    vs = variants_for(pid)
    names = [v["name"] for v in vs]
    assert len(names) == len(set(names)), f"duplicate variant names for {pid}"
    if not vs:
        return {"variants": 0, "failed": [], "note": "no variants defined"}
    with ProcessPoolExecutor(max_workers=min(jobs, len(vs))) as ex:
        results = list(ex.map(run_variant, [pid] * len(vs), vs))
    failed = [r for r in results if r["status"] not in ("ok", "skipped")]
    return {
        "variants": len(vs),
        "firing_ok": sum(1 for r in results if r["status"] == "ok" and r["expect"]),
        "neutral_ok": sum(1 for r in results if r["status"] == "ok" and not r["expect"]),
        "skipped": [r["name"] for r in results if r["status"] == "skipped"],
        "failed": [{k: r[k] for k in ("name", "status", "expect", "got")} for r in failed],
    }


def main():
    pids = [a.upper() for a in sys.argv[1:]] or sorted(p.stem.upper() for p in (VERIF / "rules").glob("c[0-9][0-9].py"))
    bad = 0
    for pid in pids:
        r = run_for_property(pid)
        print(f"{pid}: {r['variants']} variants, firing ok {r.get('firing_ok', 0)}, neutral ok {r.get('neutral_ok', 0)}, skipped {len(r.get('skipped', []))}, failed {len(r['failed'])}")
        for s in r.get("skipped", []):
            print(f"   skipped {s}")
        for f in r["failed"]:
            bad += 1
            print(f"   {f['status']:14s} {f['name']}  expected={f['expect']}  got={f['got']}")
    sys.exit(1 if bad else 0)


if __name__ == "__main__":
    main()
