"""Mutation sweep (thorough tier): how sensitive are a property's rules to single-point structural edits of
the functions they analyse?  Mutants are generated from /repo's current sources *in memory* (AST rewrite + unparse,
loader overlay); nothing is executed.  A mutant is
  killed      a rule reports a violation,
  unanalysable a rule fails closed (exit 2: unknown shape),
  survived    no rule notices.
Survivors are NOT failures (many mutants are equivalent or irrelevant to the property, e.g. message texts); they are
reported so that rule gaps can be triaged.  The sweep is deterministic for a given tree (VERIF_SEED only samples when a
cap is hit).
"""
from __future__ import annotations

import ast
import copy
import importlib
import os
import random
import sys
import time
from concurrent.futures import ProcessPoolExecutor
from pathlib import Path
from typing import Dict, List, Optional, Tuple

VERIF = Path(__file__).resolve().parent.parent
if str(VERIF) not in sys.path:
    sys.path.insert(0, str(VERIF))

from mdsa.loader import DEFAULT_SRC, AnalysisError, Program  # noqa: E402
from mdsa.report import Report, _load_known  # noqa: E402

CMP_SWAP = {ast.LtE: ast.Lt, ast.Lt: ast.LtE, ast.GtE: ast.Gt, ast.Gt: ast.GtE, ast.Eq: ast.NotEq, ast.NotEq: ast.Eq, ast.Is: ast.IsNot, ast.IsNot: ast.Is, ast.In: ast.NotIn, ast.NotIn: ast.In}
MODE_SWAP = {"r": "r+", "r+": "r", "x": "w", "rb": "r+b", "r+b": "wb", "wb": "ab"}


def src_dir() -> Path:
    return Path(os.environ.get("MDSA_SRC") or DEFAULT_SRC)


def _fn_nodes(tree: ast.Module, qual_tail: List[str]) -> Optional[ast.AST]:
    """Locate a (possibly nested / method) function by its qualified name parts inside a module tree."""
    cur_body = tree.body
    node = None
    for part in qual_tail:
        if part == "<locals>":
            continue
        node = None
        for st in _walk_defs(cur_body):
            if isinstance(st, (ast.FunctionDef, ast.AsyncFunctionDef, ast.ClassDef)) and st.name == part:
                node = st
                break
        if node is None:
            return None
        cur_body = node.body
    return node


def _walk_defs(body):
    for st in body:
        yield st
        if isinstance(st, (ast.If, ast.Try, ast.With)):
            yield from _walk_defs(st.body)
            if hasattr(st, "orelse"):
                yield from _walk_defs(st.orelse)


def candidate_sites(fn: ast.AST) -> List[Tuple[str, int, str]]:
    """(operator, index of the node in ast.walk order, description)"""
    out = []
    for i, n in enumerate(ast.walk(fn)):
        if n is fn:
            continue
        if isinstance(n, ast.Expr) and isinstance(n.value, ast.Call):
            out.append(("del-call", i, ast.unparse(n)[:70]))
        elif isinstance(n, ast.If):
            out.append(("negate-if", i, "if " + ast.unparse(n.test)[:60]))
        elif isinstance(n, ast.Compare) and len(n.ops) == 1 and type(n.ops[0]) in CMP_SWAP:
            out.append(("cmp-swap", i, ast.unparse(n)[:70]))
        elif isinstance(n, ast.Raise):
            out.append(("raise-to-pass", i, ast.unparse(n)[:70]))
        elif isinstance(n, ast.Return) and n.value is not None and not (isinstance(n.value, ast.Constant) and n.value.value is None):
            out.append(("drop-return", i, ast.unparse(n)[:70]))
        elif isinstance(n, ast.Subscript) and isinstance(n.slice, ast.UnaryOp) and isinstance(n.slice.op, ast.USub) and isinstance(n.slice.operand, ast.Constant) and n.slice.operand.value == 1:
            out.append(("idx-newest-to-0", i, ast.unparse(n)[:70]))
        elif isinstance(n, ast.Constant) and isinstance(n.value, str) and n.value in MODE_SWAP:
            out.append(("mode-swap", i, repr(n.value)))
        elif isinstance(n, ast.Constant) and isinstance(n.value, bool):
            out.append(("bool-flip", i, repr(n.value)))
        elif isinstance(n, (ast.Assign, ast.AugAssign)) and any(isinstance(t, (ast.Subscript, ast.Attribute)) for t in (n.targets if isinstance(n, ast.Assign) else [n.target])):
            out.append(("del-store", i, ast.unparse(n)[:70]))
        elif isinstance(n, ast.Delete):
            out.append(("del-delete", i, ast.unparse(n)[:70]))
        elif isinstance(n, ast.BoolOp) and len(n.values) == 2:
            out.append(("boolop-swap", i, ast.unparse(n)[:70]))
    return out


class _Apply(ast.NodeTransformer):
    def __init__(self, target: ast.AST, op: str):
        self.target = target
        self.op = op
        self.done = False

    def generic_visit(self, node):
        if node is self.target and not self.done:
            self.done = True
            op = self.op
            if op in ("del-call", "raise-to-pass", "del-store", "del-delete"):
                return ast.copy_location(ast.Pass(), node)
            if op == "negate-if":
                node.test = ast.UnaryOp(op=ast.Not(), operand=node.test)
                return node
            if op == "cmp-swap":
                node.ops = [CMP_SWAP[type(node.ops[0])]()]
                return node
            if op == "drop-return":
                return ast.copy_location(ast.Expr(value=node.value), node)
            if op == "idx-newest-to-0":
                node.slice = ast.Constant(value=0)
                return node
            if op == "mode-swap":
                return ast.copy_location(ast.Constant(value=MODE_SWAP[node.value]), node)
            if op == "bool-flip":
                return ast.copy_location(ast.Constant(value=not node.value), node)
            if op == "boolop-swap":
                node.op = ast.Or() if isinstance(node.op, ast.And) else ast.And()
                return node
        return super().generic_visit(node)


def make_mutant(modsrc: str, qual_tail: List[str], op: str, idx: int) -> Optional[str]:
    tree = ast.parse(modsrc)
    fn = _fn_nodes(tree, qual_tail)
    if fn is None:
        return None
    nodes = list(ast.walk(fn))
    if idx >= len(nodes):
        return None
    tr = _Apply(nodes[idx], op)
    new = tr.visit(tree)
    if not tr.done:
        return None
    ast.fix_missing_locations(new)
    try:
        out = ast.unparse(new)
        ast.parse(out)
    except Exception:
        return None
    return out


def _run(pid: str, relfile: str, source: str) -> Tuple[str, List[str]]:
    try:
        P = Program(str(src_dir()), overlay={relfile: source})
        mod = importlib.import_module(f"rules.{pid.lower()}")
        rep = Report(pid, "quick")
        rep.program_stats = P.stats()
        mod.run(P, rep, "quick")
        known = {k["key"] for k in _load_known().get("known", []) if k.get("property") == pid}
        new = sorted({f.rule for f in rep.findings if f.key not in known})
        if new:
            return "killed", new
        if rep.analysis_errors:
            return "unanalysable", [e[:80] for e in rep.analysis_errors[:2]]
        return "survived", []
    except AnalysisError as e:
        return "unanalysable", [str(e)[:80]]
    except Exception as e:  # a checker crash on a mutant is a checker bug worth knowing
        return "crash", [f"{type(e).__name__}: {e}"[:120]]


def _job(args):
    pid, relfile, qual, op, idx, desc, src = args
    status, info = _run(pid, relfile, src)
    return {"function": qual, "op": op, "site": desc, "status": status, "info": info}


def baseline_functions(pid: str) -> Tuple[Program, List[str]]:
    P = Program(str(src_dir()))
    mod = importlib.import_module(f"rules.{pid.lower()}")
    rep = Report(pid, "quick")
    rep.program_stats = P.stats()
    mod.run(P, rep, "quick")
    fns = sorted(f for f in rep.analysed_functions if f in P.functions)
    return P, fns


def sweep(pid: str, jobs: int = 16, cap: int = 1500) -> dict:
    t0 = time.time()
    P, fns = baseline_functions(pid)
    # normalise every touched module once through unparse so that mutants differ from the baseline by one edit only
    work = []
    for q in fns:
        fi = P.functions[q]
        rel = fi.module.path.relative_to(src_dir()).as_posix()
        tail = q[len(fi.module.name) + 1:].split(".") if fi.module.name else q.split(".")
        fn = _fn_nodes(ast.parse(fi.module.source), tail)
        if fn is None:
            continue
        for op, idx, desc in candidate_sites(fn):
            work.append((q, rel, tail, op, idx, desc, fi.module.source))
    total_sites = len(work)
    if len(work) > cap:
        rnd = random.Random(int(os.environ.get("VERIF_SEED", "0") or 0))
        work = rnd.sample(work, cap)
    jobs_args = []
    for q, rel, tail, op, idx, desc, src in work:
        m = make_mutant(src, tail, op, idx)
        if m is not None:
            jobs_args.append((pid, rel, q, op, idx, desc, m))
    # sanity: the unparsed-but-unmutated module must still pass (formatting must not matter)
    with ProcessPoolExecutor(max_workers=jobs) as ex:
        results = list(ex.map(_job, jobs_args, chunksize=8))
    by = {}
    for r in results:
        by[r["status"]] = by.get(r["status"], 0) + 1
    per_op: Dict[str, Dict[str, int]] = {}
    for r in results:
        per_op.setdefault(r["op"], {}).setdefault(r["status"], 0)
        per_op[r["op"]][r["status"]] += 1
    survivors = [r for r in results if r["status"] == "survived"]
    crashes = [r for r in results if r["status"] == "crash"]
    return {
        "functions_mutated": len(fns),
        "candidate_sites": total_sites,
        "mutants_run": len(results),
        "killed": by.get("killed", 0),
        "unanalysable_exit2": by.get("unanalysable", 0),
        "survived": by.get("survived", 0),
        "checker_crashes": len(crashes),
        "kill_ratio": round((by.get("killed", 0)) / max(1, len(results)), 3),
        "noticed_ratio": round((by.get("killed", 0) + by.get("unanalysable", 0)) / max(1, len(results)), 3),
        "per_operator": per_op,
        "survivor_samples": [{k: r[k] for k in ("function", "op", "site")} for r in survivors[:60]],
        "crash_samples": crashes[:5],
        "wall_s": round(time.time() - t0, 1),
        "note": "survivors are not failures: many mutants are equivalent or irrelevant to the property; they are listed for triage of rule gaps",
    }


def format_neutral_check(pid: str) -> List[str]:
    """Re-run the property's rules on every touched module after an unparse round trip (layout-neutral):
    a finding here would be a false alarm caused by formatting."""
    P, fns = baseline_functions(pid)
    mods = {}
    for q in fns:
        fi = P.functions[q]
        mods[fi.module.path.relative_to(src_dir()).as_posix()] = ast.unparse(ast.parse(fi.module.source))
    P2 = Program(str(src_dir()), overlay=mods)
    mod = importlib.import_module(f"rules.{pid.lower()}")
    rep = Report(pid, "quick")
    rep.program_stats = P2.stats()
    mod.run(P2, rep, "quick")
    known = {k["key"] for k in _load_known().get("known", []) if k.get("property") == pid}
    return sorted({f"{f.rule} @ {f.func}" for f in rep.findings if f.key not in known}) + [f"exit2: {e[:100]}" for e in rep.analysis_errors]


if __name__ == "__main__":
    import json

    for pid in [a.upper() for a in sys.argv[1:]]:
        r = sweep(pid)
        print(pid, json.dumps({k: v for k, v in r.items() if k not in ("survivor_samples", "per_operator")}))
        for s in r["survivor_samples"]:
            print("   survived:", s["function"], "|", s["op"], "|", s["site"])
        for c in r["crash_samples"]:
            print("   CRASH:", c)
