"""CLI: ./check <Cnn> [--tier quick|thorough] [--src DIR] [--no-write]

exit 0  property clauses hold on everything analysed (known findings echoed)
exit 1  VIOLATION property=<id> replay=<path>
exit 2  ANALYSIS-ERROR (anchor vanished / unknown shape / instance floor / crash): never a silent pass
"""
from __future__ import annotations

import argparse
import importlib
import os
import sys
import traceback

from .loader import AnalysisError, Program
from .report import Report


def run_property(pid: str, tier: str, P: Program) -> Report:
    mod = importlib.import_module(f"rules.{pid.lower()}")
    rep = Report(pid, tier)
    rep.program_stats = P.stats()
    mod.run(P, rep, tier)
    return rep


def main(argv=None) -> int:
    ap = argparse.ArgumentParser()
    ap.add_argument("pid")
    ap.add_argument("--tier", default=os.environ.get("VERIF_TIER", "quick"), choices=["quick", "thorough"])
    ap.add_argument("--src", default=None)
    ap.add_argument("--no-write", action="store_true")
    a = ap.parse_args(argv)
    pid = a.pid.upper()
    try:
        P = Program(a.src)
        rep = run_property(pid, a.tier, P)
        if a.tier == "thorough":
            from selftest import harness

            st = harness.run_for_property(pid)
            rep.extra_coverage["selftest"] = st
            if st.get("failed"):
                raise AnalysisError(f"checker self-test failed for {pid}: {st['failed'][:5]}")
            from selftest import mutate

            fmt = mutate.format_neutral_check(pid)
            rep.extra_coverage["layout_neutral_twin"] = {"findings": fmt, "what": "all modules under rules re-generated with ast.unparse (layout/comments changed, behaviour identical) must stay silent"}
            if fmt:
                raise AnalysisError(f"layout-neutral twin of {pid} is not silent (rule depends on formatting): {fmt[:3]}")
            from selftest import neutralize

            meta = neutralize.run([pid])
            bad_meta = [m for m in meta if m["findings"] or m["analysis_errors"]]
            rep.extra_coverage["metamorphic_twins"] = {"transformations": [m["transform"] for m in meta], "not_silent": bad_meta[:5],
                "what": "the whole package rewritten by each behaviour-preserving transformation (renamed locals, flipped / split / merged conditions, else-after-jump, De Morgan, len comparisons, walrus split, conditional expressions as statements, named conditions, `not a in b` spelling, and all together); every rule of the property re-run on each program: must report nothing"}
            if bad_meta:
                raise AnalysisError(f"metamorphic twin of {pid} is not silent (the rule depends on spelling, not on behaviour): {[(m['transform'], (m['findings'] or m['analysis_errors'])[:2]) for m in bad_meta[:3]]}")
            sw = mutate.sweep(pid)
            rep.extra_coverage["mutation_sweep"] = sw
            print(f"  metamorphic twins: {len(meta)} behaviour-preserving rewrites of the whole package, all silent")
            print(f"  self-test: {st['variants']} variants ok ({st.get('firing_ok', 0)} firing, {st.get('neutral_ok', 0)} neutral, {len(st.get('skipped', []))} skipped); "
                  f"mutation sweep: {sw['mutants_run']} single-point mutants of {sw['functions_mutated']} functions under rules: {sw['killed']} reported as violation, "
                  f"{sw['unanalysable_exit2']} failed closed (exit 2), {sw['survived']} unnoticed (equivalent / outside the decided clauses; listed in the evidence)")
            if sw.get("checker_crashes"):
                raise AnalysisError(f"checker crashed on {sw['checker_crashes']} mutants: {sw['crash_samples'][:2]}")
        return rep.finish(write=not a.no_write)
    except AnalysisError as e:
        print(f"ANALYSIS-ERROR property={pid}: {e}")
        return 2
    except Exception:
        traceback.print_exc()
        print(f"ANALYSIS-ERROR property={pid}: checker crashed (see traceback)")
        return 2


if __name__ == "__main__":
    sys.exit(main())
