"""Restoring *known* private helpers that a change merged into their callers ("inline method" is behaviour preserving,
so it must be verdict preserving -- the mirror image of mdsa/inline.py).

The rules name the private helpers of the pinned tree as anchors (`_delete_latest_container` is the one place that unlinks a
container, `_next_patch_filepath` the one generator of patch file names ...).  When such a helper is missing from the tree
under analysis, its pinned definition (mdsa/known_bodies.json, generated with the known-function table) is looked for in
the functions of the same class / module:

  * statement form: a run of consecutive statements that equals the helper's body up to renaming of its locals, with
    the parameters bound to arbitrary expressions; the run is replaced by a call of the helper;
  * value form: an assigned / returned expression whose local-expanded, canonical form equals the helper's expanded
    return expression; the expression is replaced by a call of the helper.

If at least one occurrence is found the helper's definition is put back, and the rules see the program in the shape
they were written for.  If the merged copy was changed on the way (so that nothing matches), the helper stays missing:
the rules that need it report analysis-broken or the ownership tables report the moved effect -- never silence.
"""
from __future__ import annotations

import ast
import copy
import json
from pathlib import Path
from typing import Dict, List, Optional, Set, Tuple

from . import match as M

BODIES_FILE = Path(__file__).resolve().parent / "known_bodies.json"


def load_bodies() -> Dict[str, dict]:
    if not BODIES_FILE.exists():
        return {}
    return json.loads(BODIES_FILE.read_text())


def _body_wo_doc(node) -> List[ast.stmt]:
    b = list(node.body)
    if b and isinstance(b[0], ast.Expr) and isinstance(b[0].value, ast.Constant) and isinstance(b[0].value.value, str):
        b = b[1:]
    return b


def _locals_of(stmts: List[ast.stmt]) -> Set[str]:
    out: Set[str] = set()
    for st in stmts:
        for n in ast.walk(st):
            if isinstance(n, ast.Name) and isinstance(n.ctx, (ast.Store, ast.Del)):
                out.add(n.id)
    return out


class _ToPattern(ast.NodeTransformer):
    def __init__(self, params: Set[str], locals_: Set[str]):
        self.params, self.locals_ = params, locals_

    def visit_Name(self, node):
        if node.id in self.locals_:
            return ast.copy_location(ast.Name(id=f"__L_{node.id}", ctx=node.ctx), node)
        if node.id in self.params:
            return ast.copy_location(ast.Name(id=f"__P_{node.id}", ctx=node.ctx), node)
        return node


def _blocks(func: ast.AST):
    """(owner node, field name, statement list) for every statement list inside the function (not nested defs)"""
    todo = [func]
    while todo:
        n = todo.pop()
        for fld in ("body", "orelse", "finalbody"):
            b = getattr(n, fld, None)
            if isinstance(b, list) and b and isinstance(b[0], ast.stmt):
                yield n, fld, b
                for st in b:
                    if not isinstance(st, (ast.FunctionDef, ast.AsyncFunctionDef, ast.ClassDef)):
                        todo.append(st)
        for h in getattr(n, "handlers", []) or []:
            todo.append(h)


def _call_of(entry: dict, name: str, binds: Dict[str, ast.AST], params: List[str], defaults: Dict[str, ast.AST], recv: Optional[str]) -> Optional[ast.Call]:
    args = []
    for p in params:
        b = binds.get(f"__P_{p}")
        if b is None:
            if p in defaults:
                break
            return None
        args.append(copy.deepcopy(b))
    func = ast.Attribute(value=ast.Name(id=recv, ctx=ast.Load()), attr=name, ctx=ast.Load()) if recv else ast.Name(id=name, ctx=ast.Load())
    return ast.Call(func=func, args=args, keywords=[])


def _used_outside(func: ast.AST, names: Set[str], window: List[ast.stmt]) -> bool:
    inside = {id(x) for st in window for x in ast.walk(st)}
    for n in ast.walk(func):
        if isinstance(n, ast.Name) and n.id in names and id(n) not in inside:
            return True
    return False


def _renamed(program, bodies, log: List[str]) -> None:
    """A known private helper that is missing while the same class / module has ONE new private function with the same body
    (docstring aside; `self` dropped in favour of @staticmethod or the reverse) was renamed: it is analysed under its old name."""
    from .inline import load_known

    known = load_known() or set()
    for qual, entry in sorted(bodies.items()):
        if qual in program.functions:
            continue
        m = program.modules.get(entry["module"])
        if m is None:
            continue
        cls = program.classes.get(entry["cls"]) if entry.get("cls") else None
        if entry.get("cls") and cls is None:
            continue
        try:
            kdef = ast.parse(entry["src"]).body[0]
        except SyntaxError:
            continue
        kbody = [ast.dump(x) for x in _body_wo_doc(kdef)]
        kparams = [a.arg for a in kdef.args.posonlyargs + kdef.args.args]
        cands = []
        for fi in program.functions.values():
            if fi.module is not m or fi.parent is not None or fi.qual in known or not isinstance(fi.node, ast.FunctionDef) or not fi.name.startswith("_") or fi.name.startswith("__"):
                continue
            if (cls is None) != (fi.cls is None) or (cls is not None and fi.cls is not cls):
                continue
            if [ast.dump(x) for x in _body_wo_doc(fi.node)] != kbody:
                continue
            fparams = [a.arg for a in fi.node.args.posonlyargs + fi.node.args.args]
            if fparams == kparams or (kparams[:1] == ["self"] and fparams == kparams[1:] and any(isinstance(d, ast.Name) and d.id == "staticmethod" for d in fi.node.decorator_list)):
                cands.append(fi)
        if len(cands) != 1:
            continue
        fi = cands[0]
        new, old = fi.name, kdef.name
        fparams = [a.arg for a in fi.node.args.posonlyargs + fi.node.args.args]
        if fparams != kparams:
            fi.node.decorator_list = [d for d in fi.node.decorator_list if not (isinstance(d, ast.Name) and d.id == "staticmethod")]
            fi.node.args.args.insert(0, ast.arg(arg="self"))
        fi.node.name = old

        class R(ast.NodeTransformer):
            def visit_Attribute(self, node):
                self.generic_visit(node)
                if node.attr == new:
                    node.attr = old
                return node

            def visit_Name(self, node):
                if node.id == new:
                    node.id = old
                return node

        R().visit(m.tree)
        ast.fix_missing_locations(m.tree)
        del program.functions[fi.qual]
        if cls is not None:
            cls.methods.pop(new, None)
            cls.methods[old] = fi
        else:
            m.functions.pop(new, None)
            m.functions[old] = fi
        fi.qual = qual
        program.functions[qual] = fi
        log.append(f"{qual}: the new private function `{new}` has the body of the known helper `{old}`: a rename, analysed under the old name")


def apply(program) -> List[str]:
    bodies = load_bodies()
    log: List[str] = []
    if not bodies:
        return log
    from .loader import FuncInfo

    try:
        _renamed(program, bodies, log)
    except Exception as e:  # a failed rename detection must not take the analysis down
        log.append(f"rename detection skipped: {type(e).__name__}: {e}")

    for qual, entry in sorted(bodies.items()):
        if qual in program.functions or not entry.get("restorable", True):
            continue
        m = program.modules.get(entry["module"])
        if m is None:
            continue
        cls = program.classes.get(entry["cls"]) if entry.get("cls") else None
        if entry.get("cls") and cls is None:
            continue
        try:
            kdef = ast.parse(entry["src"]).body[0]
        except SyntaxError:
            continue
        name = kdef.name
        kind = entry.get("kind", "function")
        a = kdef.args
        all_params = [x.arg for x in a.posonlyargs + a.args]
        recv_param = all_params[0] if cls is not None and kind in ("method", "classmethod") and all_params else None
        params = all_params[1:] if recv_param else all_params
        defaults = dict(zip(all_params[len(all_params) - len(a.defaults):], a.defaults))
        body = _body_wo_doc(kdef)
        if not body:
            continue
        ret = body[-1] if isinstance(body[-1], ast.Return) and body[-1].value is not None else None
        if any(isinstance(x, ast.Return) for st in (body[:-1] if ret is not None else body) for x in ast.walk(st)):
            continue
        locs = _locals_of(body)
        topat = _ToPattern(set(params), locs)
        pats = [topat.visit(copy.deepcopy(st)) for st in body]
        # the receiver inside the helper is spelled like the receiver in the candidate function (self / cls)
        cands = [fi for fi in program.functions.values() if isinstance(fi.node, (ast.FunctionDef, ast.AsyncFunctionDef)) and fi.module is m and fi.parent is None and ((cls is None and fi.cls is None) or (cls is not None and fi.cls is cls))]
        found = 0
        for fi in cands:
            fa = fi.node.args
            fparams = [x.arg for x in fa.posonlyargs + fa.args]
            recv = None
            if recv_param:
                if not fparams or fparams[0] != recv_param:
                    continue
                recv = recv_param
            # ---- statement form
            done = False
            for owner, fld, block in list(_blocks(fi.node)):
                k = len(pats)
                for i in range(0, len(block) - k + 1):
                    binds: Optional[dict] = {}
                    for p_, st in zip(pats, block[i:i + k]):
                        tgt_value = None
                        if isinstance(p_, ast.Return) and isinstance(st, (ast.Assign, ast.AnnAssign, ast.Return)) and st.value is not None:
                            binds = M.match(p_.value, st.value, binds)
                        elif isinstance(p_, ast.Return):
                            binds = None
                        else:
                            binds = M.match(p_, st, binds)
                        if binds is None:
                            break
                    if binds is None:
                        continue
                    if any(k_.startswith("__L_") and not isinstance(v_, ast.Name) for k_, v_ in binds.items()):
                        continue
                    lnames = {v_.id for k_, v_ in binds.items() if k_.startswith("__L_")}
                    window = block[i:i + k]
                    last = window[-1]
                    keep = {t.id for t in getattr(last, "targets", []) if isinstance(t, ast.Name)} if ret is not None else set()
                    if ret is not None and isinstance(last, ast.AnnAssign) and isinstance(last.target, ast.Name):
                        keep.add(last.target.id)
                    if _used_outside(fi.node, lnames - keep, window):
                        continue  # a local of the merged copy lives on: not a plain copy of the helper
                    call = _call_of(entry, name, binds, params, defaults, recv)
                    if call is None:
                        continue
                    if ret is None:
                        new = ast.Expr(value=call)
                    else:
                        new = copy.copy(last)
                        new.value = call
                    ast.copy_location(new, window[0])
                    ast.fix_missing_locations(new)
                    block[i:i + k] = [new]
                    found += 1
                    done = True
                    log.append(f"{fi.qual}: statements L{getattr(window[0], 'lineno', '?')}-L{getattr(window[-1], 'end_lineno', '?')} are the body of the known helper {qual}: analysed as a call of it")
                    break
                if done:
                    break
            if done or ret is None:
                continue
            # ---- value form: an assigned / returned expression equal to the helper's (expanded) return expression
            kret = M.canon_strings(M.expand(kdef, ret.value))
            kpat = _ToPattern(set(params), set()).visit(copy.deepcopy(kret))
            for st in ast.walk(fi.node):
                if isinstance(st, (ast.Assign, ast.AnnAssign, ast.Return)) and st.value is not None and not isinstance(st.value, ast.Constant):
                    ev = M.canon_strings(M.expand(fi.node, st.value))
                    binds = M.match(kpat, ev, {})
                    if binds is None:
                        continue
                    call = _call_of(entry, name, binds, params, defaults, recv)
                    if call is None:
                        continue
                    st.value = ast.copy_location(call, st.value)
                    ast.fix_missing_locations(st)
                    found += 1
                    log.append(f"{fi.qual}: the value at L{getattr(st, 'lineno', '?')} is what the known helper {qual} returns: analysed as a call of it")
                    break
        if not found:
            continue
        # put the definition back
        if cls is not None:
            cls.node.body.append(kdef)
            nf = FuncInfo(qual, m, cls, kdef, None)
            cls.methods[name] = nf
        else:
            m.tree.body.append(kdef)
            nf = FuncInfo(qual, m, None, kdef, None)
            m.functions[name] = nf
        program.functions[qual] = nf
        for fi in program.functions.values():
            for attr in ("_mdsa_single_defs", "_mdsa_objnames"):
                if hasattr(fi.node, attr):
                    try:
                        delattr(fi.node, attr)
                    except AttributeError:
                        pass
        log.append(f"{qual}: definition restored from the pinned tree ({found} use(s) found merged into callers)")
    return log
