"""One spelling for keyword options: `def f(self, **kwargs): opt = kwargs.pop("opt", <const>)` and
`def f(self, *, opt=<const>, **kwargs)` accept the same calls and bind the same value (as long as the option is popped
before `kwargs` is used otherwise).  The rules were written against the spelling of the pinned tree
(mdsa/pinned_summaries.json records, per function, the keyword-only parameters and the options popped from **kwargs);
a function that moved an option from one form to the other is rewritten to the pinned form before the rules run."""
from __future__ import annotations

import ast
import json
from pathlib import Path
from typing import Dict, List, Optional

TABLE = Path(__file__).resolve().parent / "pinned_summaries.json"


def _norm(e: ast.AST) -> str:
    return ast.unparse(e)


def _first_pop(fn: ast.AST, kw: str, name: str):
    """(statement index, target name, default) of a top-level `v = kw.pop("name", default)` that comes before any other
    use of kw (other pops of constant names excepted)"""
    for i, st in enumerate(fn.body):
        tgt = val = None
        if isinstance(st, ast.Assign) and len(st.targets) == 1 and isinstance(st.targets[0], ast.Name):
            tgt, val = st.targets[0].id, st.value
        elif isinstance(st, ast.AnnAssign) and isinstance(st.target, ast.Name) and st.value is not None:
            tgt, val = st.target.id, st.value
        is_pop = isinstance(val, ast.Call) and isinstance(val.func, ast.Attribute) and val.func.attr == "pop" and isinstance(val.func.value, ast.Name) and val.func.value.id == kw and len(val.args) == 2 and isinstance(val.args[0], ast.Constant) and isinstance(val.args[0].value, str)
        if is_pop and val.args[0].value == name:
            return i, tgt, val.args[1]
        if is_pop:
            continue
        if any(isinstance(x, ast.Name) and x.id == kw for x in ast.walk(st)):
            return None
    return None


def apply(program) -> List[str]:
    log: List[str] = []
    if not TABLE.exists():
        return log
    try:
        tab = json.loads(TABLE.read_text())
    except Exception:
        return log
    for q, s in tab.items():
        fi = program.functions.get(q)
        sig = s.get("signature")
        if fi is None or sig is None or not isinstance(fi.node, (ast.FunctionDef, ast.AsyncFunctionDef)):
            continue
        a = fi.node.args
        if a.kwarg is None or sig.get("kwarg") is None:
            continue
        kw = a.kwarg.arg
        pinned_kwonly: Dict[str, Optional[str]] = sig.get("kwonly", {})
        pinned_opts: Dict[str, str] = s.get("option_defaults", {})
        changed = False
        # (1) option of the pinned tree that is a keyword-only parameter now -> back to the pop form
        for p_, d_ in list(zip(a.kwonlyargs, a.kw_defaults)):
            if p_.arg in pinned_kwonly or p_.arg not in pinned_opts or d_ is None:
                continue
            if not (isinstance(d_, ast.Constant) or (isinstance(d_, ast.UnaryOp) and isinstance(d_.operand, ast.Constant))):
                continue
            k = a.kwonlyargs.index(p_)
            del a.kwonlyargs[k]
            del a.kw_defaults[k]
            pop = ast.Assign(targets=[ast.Name(id=p_.arg, ctx=ast.Store())], value=ast.Call(func=ast.Attribute(value=ast.Name(id=kw, ctx=ast.Load()), attr="pop", ctx=ast.Load()), args=[ast.Constant(value=p_.arg), d_], keywords=[]))
            at = 1 if fi.node.body and isinstance(fi.node.body[0], ast.Expr) and isinstance(fi.node.body[0].value, ast.Constant) and isinstance(fi.node.body[0].value.value, str) else 0
            ast.copy_location(pop, fi.node.body[at] if len(fi.node.body) > at else fi.node)
            ast.fix_missing_locations(pop)
            fi.node.body.insert(at, pop)
            changed = True
            log.append(f"{q}: keyword-only parameter `{p_.arg}={_norm(d_)}` is the option the pinned tree pops from **{kw}: analysed in that form")
        # (2) keyword-only parameter of the pinned tree that is popped from **kwargs now -> back to the parameter form
        have = {x.arg for x in a.kwonlyargs}
        for name, d_txt in pinned_kwonly.items():
            if name in have or d_txt is None:
                continue
            fp = _first_pop(fi.node, kw, name)
            if fp is None or _norm(fp[2]) != d_txt:
                continue
            i, tgt, dflt = fp
            a.kwonlyargs.append(ast.arg(arg=name))
            a.kw_defaults.append(dflt)
            if tgt == name:
                del fi.node.body[i]
            else:
                st = fi.node.body[i]
                st.value = ast.copy_location(ast.Name(id=name, ctx=ast.Load()), st.value)
            ast.fix_missing_locations(fi.node)
            changed = True
            log.append(f"{q}: option `{name}` popped from **{kw} is the keyword-only parameter of the pinned tree: analysed in that form")
        if changed:
            if hasattr(fi, "params"):
                try:
                    fi.params = [x.arg for x in a.posonlyargs + a.args]
                except Exception:
                    pass
            for attr in ("_mdsa_single_defs", "_mdsa_objnames"):
                if hasattr(fi.node, attr):
                    try:
                        delattr(fi.node, attr)
                    except AttributeError:
                        pass
    return log
