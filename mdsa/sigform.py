"""One spelling for keyword options: `def f(self, **kwargs): opt = kwargs.pop("opt", <const>)` and
`def f(self, *, opt=<const>, **kwargs)` accept the same calls and bind the same value (as long as the option is popped
before `kwargs` is used otherwise).  The rules were written against the spelling of the pinned tree
(mdsa/pinned_summaries.json records, per function, the keyword-only parameters and the options popped from **kwargs);
a function that moved an option from one form to the other is rewritten to the pinned form before the rules run."""
from __future__ import annotations

import ast
import json
from pathlib import Path
from typing import Dict, List, Optional

TABLE = Path(__file__).resolve().parent / "pinned_summaries.json"


def _norm(e: ast.AST) -> str:
    return ast.unparse(e)


def _first_pop(fn: ast.AST, kw: str, name: str):
    """(statement index, target name, default) of a top-level `v = kw.pop("name", default)` that comes before any other
    use of kw (other pops of constant names excepted)"""
    for i, st in enumerate(fn.body):
        tgt = val = None
        if isinstance(st, ast.Assign) and len(st.targets) == 1 and isinstance(st.targets[0], ast.Name):
            tgt, val = st.targets[0].id, st.value
        elif isinstance(st, ast.AnnAssign) and isinstance(st.target, ast.Name) and st.value is not None:
            tgt, val = st.target.id, st.value
        is_pop = isinstance(val, ast.Call) and isinstance(val.func, ast.Attribute) and val.func.attr == "pop" and isinstance(val.func.value, ast.Name) and val.func.value.id == kw and len(val.args) == 2 and isinstance(val.args[0], ast.Constant) and isinstance(val.args[0].value, str)
        if is_pop and val.args[0].value == name:
            return i, tgt, val.args[1]
        if is_pop:
            continue
        if any(isinstance(x, ast.Name) and x.id == kw for x in ast.walk(st)):
            return None
    return None


class _Fold(ast.NodeTransformer):
    """constant folding of conditions after a parameter was replaced by its default"""

    def visit_UnaryOp(self, node):
        self.generic_visit(node)
        if isinstance(node.op, ast.Not) and isinstance(node.operand, ast.Constant):
            return ast.copy_location(ast.Constant(value=not node.operand.value), node)
        return node

    def visit_Compare(self, node):
        self.generic_visit(node)
        if len(node.ops) == 1 and isinstance(node.left, ast.Constant) and isinstance(node.comparators[0], ast.Constant):
            a, b = node.left.value, node.comparators[0].value
            op = node.ops[0]
            try:
                v = {ast.Is: a is b, ast.IsNot: a is not b, ast.Eq: a == b, ast.NotEq: a != b}.get(type(op))
            except Exception:
                v = None
            if v is not None and (a is None or b is None or isinstance(op, (ast.Eq, ast.NotEq))):
                return ast.copy_location(ast.Constant(value=bool(v)), node)
        return node

    def visit_BoolOp(self, node):
        self.generic_visit(node)
        is_and = isinstance(node.op, ast.And)
        vals = []
        for v in node.values:
            if isinstance(v, ast.Constant):
                if bool(v.value) == is_and:
                    continue  # neutral element
                vals.append(v)  # absorbing element: the rest is never evaluated
                break
            vals.append(v)
        if not vals:
            return ast.copy_location(ast.Constant(value=is_and), node)
        if len(vals) == 1:
            return vals[0]
        node.values = vals
        return node

    def visit_IfExp(self, node):
        self.generic_visit(node)
        if isinstance(node.test, ast.Constant):
            return node.body if node.test.value else node.orelse
        return node

    def visit_If(self, node):
        self.generic_visit(node)
        if isinstance(node.test, ast.Constant):
            body = node.body if node.test.value else node.orelse
            return body or [ast.copy_location(ast.Pass(), node)]
        return node


def _passed_somewhere(program) -> Dict[str, set]:
    """callee name -> keyword names passed / maximal number of positional arguments at any call site in the package"""
    out: Dict[str, set] = {}
    for m in program.modules.values():
        for x in ast.walk(m.tree):
            if isinstance(x, ast.Call):
                nm = x.func.attr if isinstance(x.func, ast.Attribute) else x.func.id if isinstance(x.func, ast.Name) else None
                if nm is None:
                    continue
                e = out.setdefault(nm, set())
                for k in x.keywords:
                    e.add(k.arg if k.arg is not None else "**")
                e.add(("npos", len(x.args) + (100 if any(isinstance(a, ast.Starred) for a in x.args) else 0)))
    return out


def _new_params_at_default(program, tab) -> List[str]:
    """A parameter the pinned function does not have and that has a constant default is, for every existing caller, that
    constant: the function is analysed at the default (what `f(..)` of today's call sites does) -- unless some call site in the
    package passes it (then the new behaviour is in use and is analysed as written)."""
    log: List[str] = []
    passed = _passed_somewhere(program)
    for q, s in tab.items():
        fi = program.functions.get(q)
        sig = s.get("signature")
        if fi is None or sig is None or not isinstance(fi.node, (ast.FunctionDef, ast.AsyncFunctionDef)):
            continue
        a = fi.node.args
        old = set(sig.get("pos", [])) | set(sig.get("kwonly", {})) | set(s.get("option_defaults", {}))
        pos = a.posonlyargs + a.args
        new = {}
        for p_, d_ in list(zip(pos[len(pos) - len(a.defaults):], a.defaults)) + [(p_, d_) for p_, d_ in zip(a.kwonlyargs, a.kw_defaults) if d_ is not None]:
            if p_.arg in old:
                continue
            if isinstance(d_, ast.Constant) or (isinstance(d_, ast.UnaryOp) and isinstance(d_.operand, ast.Constant)):
                new[p_.arg] = d_
        new = {k: v for k, v in new.items() if not any(isinstance(x, ast.Name) and x.id == k and isinstance(x.ctx, (ast.Store, ast.Del)) for x in ast.walk(fi.node))}
        used = passed.get(fi.node.name, set())
        names_pos = [x.arg for x in pos]
        is_method = fi.cls is not None and getattr(fi, "parent", None) is None
        for k in list(new):
            if k in used or "**" in used:
                del new[k]
            elif k in names_pos:
                idx = names_pos.index(k) - (1 if is_method else 0)
                if any(isinstance(u, tuple) and u[1] > idx for u in used):
                    del new[k]
        if not new:
            continue

        class Sub(ast.NodeTransformer):
            def visit_Name(self, node):
                if isinstance(node.ctx, ast.Load) and node.id in new:
                    return ast.copy_location(ast.Constant(value=ast.literal_eval(new[node.id])), node)
                return node

            def visit_FunctionDef(self, node):
                inner = {x.arg for x in node.args.posonlyargs + node.args.args + node.args.kwonlyargs}
                if inner & set(new):
                    return node
                return self.generic_visit(node)

            visit_Lambda = visit_FunctionDef

        fi.node.body = [Sub().visit(st) for st in fi.node.body]
        body = []
        for st in fi.node.body:
            r = _Fold().visit(st)
            body += r if isinstance(r, list) else [r]
        # `v = <literal>` directly followed by an unconditional `v = ..` that does not read v (left over from a folded `if`)
        def _tgt(st):
            if isinstance(st, ast.Assign) and len(st.targets) == 1 and isinstance(st.targets[0], ast.Name):
                return st.targets[0].id
            if isinstance(st, ast.AnnAssign) and isinstance(st.target, ast.Name) and st.value is not None:
                return st.target.id
            return None

        i = 0
        while i + 1 < len(body):
            a_, b_ = body[i], body[i + 1]
            if _tgt(a_) and _tgt(a_) == _tgt(b_) and isinstance(a_.value, (ast.Constant, ast.List, ast.Dict, ast.Set, ast.Tuple)) and not any(isinstance(x, ast.Name) and x.id == _tgt(a_) for x in ast.walk(b_.value)):
                del body[i]
                continue
            i += 1
        fi.node.body = body or [ast.Pass()]
        ast.fix_missing_locations(fi.node)
        for attr in ("_mdsa_single_defs", "_mdsa_objnames"):
            if hasattr(fi.node, attr):
                try:
                    delattr(fi.node, attr)
                except AttributeError:
                    pass
        log.append(f"{q}: new parameter(s) {sorted(new)} analysed at their default value")
    return log


def apply(program) -> List[str]:
    log: List[str] = []
    if not TABLE.exists():
        return log
    try:
        tab = json.loads(TABLE.read_text())
    except Exception:
        return log
    for q, s in tab.items():
        fi = program.functions.get(q)
        sig = s.get("signature")
        if fi is None or sig is None or not isinstance(fi.node, (ast.FunctionDef, ast.AsyncFunctionDef)):
            continue
        a = fi.node.args
        if a.kwarg is None or sig.get("kwarg") is None:
            continue
        kw = a.kwarg.arg
        pinned_kwonly: Dict[str, Optional[str]] = sig.get("kwonly", {})
        pinned_opts: Dict[str, str] = s.get("option_defaults", {})
        changed = False
        # (1) option of the pinned tree that is a keyword-only parameter now -> back to the pop form
        for p_, d_ in list(zip(a.kwonlyargs, a.kw_defaults)):
            if p_.arg in pinned_kwonly or p_.arg not in pinned_opts or d_ is None:
                continue
            if not (isinstance(d_, ast.Constant) or (isinstance(d_, ast.UnaryOp) and isinstance(d_.operand, ast.Constant))):
                continue
            k = a.kwonlyargs.index(p_)
            del a.kwonlyargs[k]
            del a.kw_defaults[k]
            pop = ast.Assign(targets=[ast.Name(id=p_.arg, ctx=ast.Store())], value=ast.Call(func=ast.Attribute(value=ast.Name(id=kw, ctx=ast.Load()), attr="pop", ctx=ast.Load()), args=[ast.Constant(value=p_.arg), d_], keywords=[]))
            at = 1 if fi.node.body and isinstance(fi.node.body[0], ast.Expr) and isinstance(fi.node.body[0].value, ast.Constant) and isinstance(fi.node.body[0].value.value, str) else 0
            ast.copy_location(pop, fi.node.body[at] if len(fi.node.body) > at else fi.node)
            ast.fix_missing_locations(pop)
            fi.node.body.insert(at, pop)
            changed = True
            log.append(f"{q}: keyword-only parameter `{p_.arg}={_norm(d_)}` is the option the pinned tree pops from **{kw}: analysed in that form")
        # (2) keyword-only parameter of the pinned tree that is popped from **kwargs now -> back to the parameter form
        have = {x.arg for x in a.kwonlyargs}
        for name, d_txt in pinned_kwonly.items():
            if name in have or d_txt is None:
                continue
            fp = _first_pop(fi.node, kw, name)
            if fp is None or _norm(fp[2]) != d_txt:
                continue
            i, tgt, dflt = fp
            a.kwonlyargs.append(ast.arg(arg=name))
            a.kw_defaults.append(dflt)
            if tgt == name:
                del fi.node.body[i]
            else:
                st = fi.node.body[i]
                st.value = ast.copy_location(ast.Name(id=name, ctx=ast.Load()), st.value)
            ast.fix_missing_locations(fi.node)
            changed = True
            log.append(f"{q}: option `{name}` popped from **{kw} is the keyword-only parameter of the pinned tree: analysed in that form")
        if changed:
            if hasattr(fi, "params"):
                try:
                    fi.params = [x.arg for x in a.posonlyargs + a.args]
                except Exception:
                    pass
            for attr in ("_mdsa_single_defs", "_mdsa_objnames"):
                if hasattr(fi.node, attr):
                    try:
                        delattr(fi.node, attr)
                    except AttributeError:
                        pass
    log += _new_params_at_default(program, tab)
    return log
