"""Regular-language reasoning over the repo's regex *constants* (no matching of sample strings):
re._parser parse trees -> epsilon-NFA over a finite alphabet of representatives; product
construction decides emptiness of intersections for all strings at once."""
from __future__ import annotations

import re
from typing import Dict, FrozenSet, List, Optional, Set, Tuple

try:
    import re._parser as sre_parse  # py3.11+
    import re._constants as sre_c
except ImportError:  # pragma: no cover
    import sre_parse  # type: ignore
    import sre_constants as sre_c  # type: ignore

# alphabet: printable ASCII + representatives for whitespace / control / non-ASCII
ALPHABET: Tuple[str, ...] = tuple(chr(c) for c in range(32, 127)) + ("\n", "\t", "\x00", "\x7f", "é", "中")


class UnsupportedRegex(Exception):
    pass


class NFA:
    def __init__(self):
        self.n = 0
        self.eps: Dict[int, Set[int]] = {}
        self.tr: Dict[int, List[Tuple[FrozenSet[str], int]]] = {}
        self.start = self.new()
        self.accept: Set[int] = set()

    def new(self) -> int:
        i = self.n
        self.n += 1
        self.eps[i] = set()
        self.tr[i] = []
        return i

    def closure(self, states) -> FrozenSet[int]:
        seen = set(states)
        todo = list(states)
        while todo:
            s = todo.pop()
            for t in self.eps[s]:
                if t not in seen:
                    seen.add(t)
                    todo.append(t)
        return frozenset(seen)

    def step(self, states: FrozenSet[int], ch: str) -> FrozenSet[int]:
        out = set()
        for s in states:
            for cs, t in self.tr[s]:
                if ch in cs:
                    out.add(t)
        return self.closure(out)

    def accepts(self, s: str) -> bool:
        cur = self.closure([self.start])
        for ch in s:
            cur = self.step(cur, ch if ch in ALPHABET else "é")
        return bool(cur & self.accept)


def _charset(item) -> FrozenSet[str]:
    op, av = item
    if op == sre_c.LITERAL:
        return frozenset(c for c in ALPHABET if ord(c) == av)
    if op == sre_c.NOT_LITERAL:
        return frozenset(c for c in ALPHABET if ord(c) != av)
    if op == sre_c.ANY:
        return frozenset(c for c in ALPHABET if c != "\n")
    if op == sre_c.IN:
        neg = False
        acc: Set[str] = set()
        for sub in av:
            if sub[0] == sre_c.NEGATE:
                neg = True
            elif sub[0] == sre_c.RANGE:
                lo, hi = sub[1]
                acc |= {c for c in ALPHABET if lo <= ord(c) <= hi}
            elif sub[0] == sre_c.LITERAL:
                acc |= {c for c in ALPHABET if ord(c) == sub[1]}
            elif sub[0] == sre_c.CATEGORY:
                acc |= _category(sub[1])
            else:
                raise UnsupportedRegex(f"class item {sub}")
        return frozenset(set(ALPHABET) - acc) if neg else frozenset(acc)
    if op == sre_c.CATEGORY:
        return frozenset(_category(av))
    raise UnsupportedRegex(str(op))


def _category(cat) -> Set[str]:
    name = str(cat)
    space = {c for c in ALPHABET if c in " \t\n\r\f\v"}
    digit = {c for c in ALPHABET if c.isdigit()}
    word = {c for c in ALPHABET if c.isalnum() or c == "_"}
    table = {
        "CATEGORY_SPACE": space,
        "CATEGORY_NOT_SPACE": set(ALPHABET) - space,
        "CATEGORY_DIGIT": digit,
        "CATEGORY_NOT_DIGIT": set(ALPHABET) - digit,
        "CATEGORY_WORD": word,
        "CATEGORY_NOT_WORD": set(ALPHABET) - word,
    }
    if name not in table:
        raise UnsupportedRegex(name)
    return table[name]


def _build(nfa: NFA, items, start: int) -> int:
    """Append the sequence `items` after state start; return the end state."""
    cur = start
    for item in items:
        op, av = item
        if op in (sre_c.LITERAL, sre_c.NOT_LITERAL, sre_c.ANY, sre_c.IN, sre_c.CATEGORY):
            nxt = nfa.new()
            nfa.tr[cur].append((_charset(item), nxt))
            cur = nxt
        elif op == sre_c.SUBPATTERN:
            cur = _build(nfa, av[3], cur)
        elif op == sre_c.BRANCH:
            end = nfa.new()
            for alt in av[1]:
                s = nfa.new()
                nfa.eps[cur].add(s)
                e = _build(nfa, alt, s)
                nfa.eps[e].add(end)
            cur = end
        elif op in (sre_c.MAX_REPEAT, sre_c.MIN_REPEAT):
            lo, hi, sub = av
            for _ in range(lo):
                cur = _build(nfa, sub, cur)
            if hi == sre_c.MAXREPEAT:
                loop_s = nfa.new()
                nfa.eps[cur].add(loop_s)
                loop_e = _build(nfa, sub, loop_s)
                nfa.eps[loop_e].add(loop_s)
                end = nfa.new()
                nfa.eps[loop_s].add(end)
                cur = end
            else:
                end = nfa.new()
                nfa.eps[cur].add(end)
                for _ in range(hi - lo):
                    cur = _build(nfa, sub, cur)
                    nfa.eps[cur].add(end)
                cur = end
        elif op == sre_c.AT:
            # anchors: only ^ at the very start / $ at the very end are meaningful for full-string languages
            continue
        elif op == sre_c.ASSERT or op == sre_c.ASSERT_NOT:
            raise UnsupportedRegex("lookaround")
        else:
            raise UnsupportedRegex(str(op))
    return cur


def full_language(pattern: str) -> NFA:
    """NFA for { s | re.fullmatch(pattern, s) }."""
    nfa = NFA()
    end = _build(nfa, list(sre_parse.parse(pattern)), nfa.start)
    nfa.accept = {end}
    return nfa


def prefix_language(pattern: str) -> NFA:
    """NFA for { s | re.match(pattern, s) } = L(pattern) . Sigma*"""
    nfa = NFA()
    end = _build(nfa, list(sre_parse.parse(pattern)), nfa.start)
    nfa.tr[end].append((frozenset(ALPHABET), end))
    nfa.accept = {end}
    return nfa


def containing(sub: str) -> NFA:
    """Sigma* sub Sigma*"""
    nfa = NFA()
    nfa.tr[nfa.start].append((frozenset(ALPHABET), nfa.start))
    cur = nfa.start
    for ch in sub:
        nxt = nfa.new()
        nfa.tr[cur].append((frozenset([ch]), nxt))
        cur = nxt
    nfa.tr[cur].append((frozenset(ALPHABET), cur))
    nfa.accept = {cur}
    return nfa


def concat(a_pat: str, b_pat: str) -> NFA:
    return full_language(f"(?:{a_pat})(?:{b_pat})")


def intersection_witness(a: NFA, b: NFA, limit: int = 200000) -> Optional[str]:
    """Some string in L(a) ∩ L(b), or None if the intersection is empty (exhaustive product search)."""
    start = (a.closure([a.start]), b.closure([b.start]))
    seen = {start: ""}
    todo = [start]
    i = 0
    while i < len(todo):
        sa, sb = todo[i]
        i += 1
        w = seen[(sa, sb)]
        if (sa & a.accept) and (sb & b.accept):
            return w
        # group alphabet by behaviour to keep the search small
        for ch in ALPHABET:
            na = a.step(sa, ch)
            if not na:
                continue
            nb = b.step(sb, ch)
            if not nb:
                continue
            key = (na, nb)
            if key not in seen:
                seen[key] = w + ch
                todo.append(key)
                if len(seen) > limit:
                    raise UnsupportedRegex("product automaton too large")
    return None


def difference_witness(a: NFA, b: NFA, limit: int = 200000) -> Optional[str]:
    """Some string in L(a) \\ L(b), or None if L(a) is a subset of L(b) (subset construction on both sides, exhaustive)."""
    start = (a.closure([a.start]), b.closure([b.start]))
    seen = {start: ""}
    todo = [start]
    i = 0
    while i < len(todo):
        sa, sb = todo[i]
        i += 1
        w = seen[(sa, sb)]
        if (sa & a.accept) and not (sb & b.accept):
            return w
        for ch in ALPHABET:
            na = a.step(sa, ch)
            if not na:
                continue
            nb = b.step(sb, ch)
            key = (na, nb)
            if key not in seen:
                seen[key] = w + ch
                todo.append(key)
                if len(seen) > limit:
                    raise UnsupportedRegex("product automaton too large")
    return None


def product_states_explored(a: NFA, b: NFA) -> int:
    start = (a.closure([a.start]), b.closure([b.start]))
    seen = {start}
    todo = [start]
    while todo:
        sa, sb = todo.pop()
        for ch in ALPHABET:
            na, nb = a.step(sa, ch), b.step(sb, ch)
            if na and nb and (na, nb) not in seen:
                seen.add((na, nb))
                todo.append((na, nb))
    return len(seen)
