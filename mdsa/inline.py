"""Inlining of *unknown* private helpers ("extract method" is behaviour preserving, so it must be verdict preserving).

The rules know the functions of the pinned tree by name and role (`mdsa/known_functions.txt`, generated once by
tools/gen_known_functions.py).  A function that is not in that table is new code; if it is a private helper of a
simple shape, every resolvable call of it is replaced by its body *in the analysed view of the caller* (the helper
itself stays in the program and is still subject to all ownership / who-may-write rules).  This is Engler-style
"known functions have roles, unknown functions are analysed through".

Inlinable helper:  name starts with `_` (not dunder) or is a nested function; plain `def` (no generator, no
*args/**kwargs, no global/nonlocal, no decorators except staticmethod/classmethod); not recursive; `return` only as
the last top-level statement (or none).
Inlinable call site:  `self._h(..)`, `cls._h(..)`, `Class._h(..)`, `_h(..)` (module level or nested in the caller)
with plain positional/keyword arguments, occurring as an expression statement, the value of an assignment or of a
return; or anywhere inside an expression if the helper body is a single `return <expr>`.
"""
from __future__ import annotations

import ast
import re
import copy
from pathlib import Path
from typing import Dict, List, Optional, Set, Tuple

KNOWN_FILE = Path(__file__).resolve().parent / "known_functions.txt"


def load_known() -> Optional[Set[str]]:
    if not KNOWN_FILE.exists():
        return None
    return {l.strip() for l in KNOWN_FILE.read_text().splitlines() if l.strip() and not l.startswith("#")}


def _is_private(name: str) -> bool:
    return name.startswith("_") and not (name.startswith("__") and name.endswith("__"))


def _body_wo_doc(node) -> List[ast.stmt]:
    b = list(node.body)
    if b and isinstance(b[0], ast.Expr) and isinstance(b[0].value, ast.Constant) and isinstance(b[0].value.value, str):
        b = b[1:]
    return b


def _walk_local(node):
    todo = [node]
    while todo:
        n = todo.pop()
        yield n
        for ch in ast.iter_child_nodes(n):
            if isinstance(ch, (ast.FunctionDef, ast.AsyncFunctionDef, ast.ClassDef)):
                continue
            todo.append(ch)


def helper_shape(node) -> Optional[str]:
    """'expr' (single return expr) | 'tail' (statements, optional tail return) | None (not inlinable)"""
    if not isinstance(node, ast.FunctionDef):
        return None
    for d in node.decorator_list:
        if not (isinstance(d, ast.Name) and d.id in ("staticmethod", "classmethod", "property")):
            return None
    a = node.args
    if a.vararg or a.kwarg or a.posonlyargs:
        return None
    body = _body_wo_doc(node)
    if not body:
        return None
    for n in _walk_local(node):
        if isinstance(n, (ast.Yield, ast.YieldFrom, ast.Await, ast.Global, ast.Nonlocal)):
            return None
    for st in node.body:
        if isinstance(st, ast.FunctionDef) and not st.decorator_list:
            continue  # a local function defined at the top of the helper moves into the caller with the body
        for n in ast.walk(st):
            if isinstance(n, (ast.FunctionDef, ast.AsyncFunctionDef, ast.ClassDef)):
                return None  # deeper nested definitions: keep the helper opaque
    rets = [n for n in _walk_local(node) if isinstance(n, ast.Return)]
    if len(body) == 1 and isinstance(body[0], ast.Return) and body[0].value is not None:
        return "expr"
    if not rets:
        return "tail"
    if len(rets) == 1 and rets[0] is body[-1]:
        return "tail"
    try:
        to_single_exit(body, "__probe")
        return "guards"  # early returns in if/else structure only: convertible to single-exit form
    except _Unsupported:
        return None


class _Unsupported(Exception):
    pass


def _boolish(e: ast.AST) -> bool:
    if isinstance(e, ast.Constant):
        return isinstance(e.value, bool)
    if isinstance(e, ast.Compare):
        return True
    if isinstance(e, ast.UnaryOp) and isinstance(e.op, ast.Not):
        return True
    if isinstance(e, ast.BoolOp):
        return all(_boolish(v) or isinstance(v, (ast.Attribute, ast.Name, ast.Call)) for v in e.values)
    if isinstance(e, ast.Call) and isinstance(e.func, ast.Name) and e.func.id in ("isinstance", "issubclass", "hasattr", "bool", "any", "all", "callable"):
        return True
    return False


def first_match_as_expr(node: ast.FunctionDef) -> Optional[ast.AST]:
    """`for v in IT: if COND: return v` followed by `return DEFAULT`  is  `next((v for v in IT if COND), DEFAULT)`"""
    body = _body_wo_doc(node)
    if len(body) != 2 or not isinstance(body[0], ast.For) or not isinstance(body[1], ast.Return) or body[0].orelse:
        return None
    loop, dflt = body[0], body[1].value if body[1].value is not None else ast.Constant(value=None)
    if len(loop.body) != 1 or not isinstance(loop.body[0], ast.If) or loop.body[0].orelse:
        return None
    iff = loop.body[0]
    if len(iff.body) != 1 or not isinstance(iff.body[0], ast.Return) or iff.body[0].value is None:
        return None
    if not isinstance(loop.target, ast.Name):
        return None
    gen = ast.GeneratorExp(elt=copy.deepcopy(iff.body[0].value), generators=[ast.comprehension(target=ast.Name(id=loop.target.id, ctx=ast.Store()), iter=copy.deepcopy(loop.iter), ifs=[copy.deepcopy(iff.test)], is_async=0)])
    return ast.fix_missing_locations(ast.Call(func=ast.Name(id="next", ctx=ast.Load()), args=[gen, copy.deepcopy(dflt)], keywords=[]))


def predicate_as_expr(node: ast.FunctionDef) -> Optional[ast.AST]:
    """A multi-statement *predicate* -- single-assignment locals, `if c: return <e>` guards, a final `return <e>`, every
    returned value a boolean constant / comparison / not / attribute -- as ONE expression:
        ext = get(ub); if ext is None: return False; return ext.flag      ==>   not (get(ub) is None) and get(ub).flag
    so that it can stand wherever the call stood (inside any(..), as an assigned flag, as an `if` test)."""
    body = _body_wo_doc(node)
    env: Dict[str, ast.AST] = {}
    params = {a.arg for a in node.args.args + node.args.kwonlyargs}

    class Sub(ast.NodeTransformer):
        def visit_Name(self, n):
            if isinstance(n.ctx, ast.Load) and n.id in env:
                return copy.deepcopy(env[n.id])
            return n

    def sub(e):
        return Sub().visit(copy.deepcopy(e))

    def ret_ok(e):
        return _boolish(e) or isinstance(e, ast.Attribute)

    def seq(stmts) -> Optional[ast.AST]:
        if not stmts:
            return None
        st, rest = stmts[0], stmts[1:]
        if isinstance(st, (ast.Assign, ast.AnnAssign)):
            tg = st.targets[0] if isinstance(st, ast.Assign) and len(st.targets) == 1 else st.target if isinstance(st, ast.AnnAssign) else None
            if not isinstance(tg, ast.Name) or getattr(st, "value", None) is None or tg.id in env or tg.id in params:
                return None
            if any(isinstance(x, (ast.Lambda, ast.NamedExpr, ast.Await, ast.Yield)) for x in ast.walk(st.value)):
                return None
            env[tg.id] = sub(st.value)
            return seq(rest)
        if isinstance(st, ast.Return):
            if st.value is None or rest or not ret_ok(st.value):
                return None
            return sub(st.value)
        if isinstance(st, ast.If):
            if not (len(st.body) == 1 and isinstance(st.body[0], ast.Return) and st.body[0].value is not None and ret_ok(st.body[0].value)):
                return None
            c, a = sub(st.test), sub(st.body[0].value)
            if st.orelse:
                if rest:
                    return None
                b = seq(st.orelse)
            else:
                b = seq(rest)
            if b is None:
                return None
            if isinstance(a, ast.Constant) and a.value is False:
                return ast.BoolOp(op=ast.And(), values=[ast.UnaryOp(op=ast.Not(), operand=c), b])
            if isinstance(a, ast.Constant) and a.value is True:
                return ast.BoolOp(op=ast.Or(), values=[c, b])
            if isinstance(b, ast.Constant) and b.value is False:
                return ast.BoolOp(op=ast.And(), values=[c, a])
            if isinstance(b, ast.Constant) and b.value is True:
                return ast.BoolOp(op=ast.Or(), values=[ast.UnaryOp(op=ast.Not(), operand=c), a])
            return ast.IfExp(test=c, body=a, orelse=b)
        return None

    if len(body) < 2:
        return None
    try:
        e = seq(body)
    except RecursionError:
        return None
    return ast.fix_missing_locations(e) if e is not None else None


def _walk_loopfree(node):
    """nodes of a statement, not descending into nested loops / functions (whose break / continue are their own)"""
    todo = [node]
    while todo:
        n = todo.pop()
        yield n
        for ch in ast.iter_child_nodes(n):
            if isinstance(ch, (ast.For, ast.AsyncFor, ast.While, ast.FunctionDef, ast.AsyncFunctionDef, ast.Lambda, ast.ClassDef)):
                continue
            todo.append(ch)


def _generator_shape(node) -> bool:
    """a generator function whose only exits are statement-level `yield <expr>` (no return, yield from, nested defs)"""
    if not isinstance(node, ast.FunctionDef) or node.decorator_list and not all(isinstance(d, ast.Name) and d.id in ("staticmethod", "classmethod") for d in node.decorator_list):
        return False
    a = node.args
    if a.vararg or a.kwarg or a.posonlyargs:
        return False
    ys = 0
    parents = {}
    for p_ in ast.walk(node):
        for ch in ast.iter_child_nodes(p_):
            parents[id(ch)] = p_
    for n in _walk_local(node):
        if isinstance(n, (ast.YieldFrom, ast.Return, ast.Await, ast.Global, ast.Nonlocal, ast.Try)):
            return False
        if isinstance(n, (ast.FunctionDef, ast.ClassDef, ast.Lambda)) and n is not node:
            return False
        if isinstance(n, ast.Yield):
            if n.value is None or not isinstance(parents.get(id(n)), ast.Expr):
                return False
            ys += 1
    return ys > 0


def _has_return(st) -> bool:
    if isinstance(st, (ast.FunctionDef, ast.AsyncFunctionDef, ast.ClassDef)):
        return False  # a local definition: its returns are its own
    return any(isinstance(n, ast.Return) for n in _walk_local(st)) or isinstance(st, ast.Return)


def to_single_exit(body: List[ast.stmt], res: str, fallthrough=None) -> List[ast.stmt]:
    """The statement list without `return`: every `return v` becomes `res = v`, and what followed an `if` that may
    return is moved into its branches (continuation passing), so that nothing runs after a taken return.  Only returns
    at block level or inside if/elif/else are supported (a return inside a loop / try / with raises _Unsupported)."""
    budget = [400]

    def tx(stmts: List[ast.stmt]) -> List[ast.stmt]:
        out: List[ast.stmt] = []
        for i, st in enumerate(stmts):
            budget[0] -= 1
            if budget[0] < 0:
                raise _Unsupported("too large")
            if isinstance(st, ast.Return):
                out.append(ast.copy_location(ast.Assign(targets=[ast.Name(id=res, ctx=ast.Store())], value=st.value if st.value is not None else ast.Constant(value=None)), st))
                return out
            if isinstance(st, ast.If) and _has_return(st):
                rest = stmts[i + 1:]
                b = tx(list(st.body) + rest)
                o = tx(list(st.orelse) + rest)
                out.append(ast.copy_location(ast.If(test=st.test, body=b or [ast.Pass()], orelse=o), st))
                return out
            if _has_return(st):
                raise _Unsupported("return inside a loop / try / with")
            out.append(st)
        if fallthrough is not None:
            out += fallthrough()  # a path that ends without `return`
        return out

    return tx(list(body))


def _method_kind(node) -> str:
    for d in node.decorator_list:
        if isinstance(d, ast.Name) and d.id in ("staticmethod", "classmethod"):
            return d.id
    return "method"


class _Rename(ast.NodeTransformer):
    def __init__(self, subst: Dict[str, ast.AST], rename: Dict[str, str]):
        self.subst = subst
        self.rename = rename

    def visit_Name(self, node: ast.Name):
        if node.id in self.subst and isinstance(node.ctx, ast.Load):
            return ast.copy_location(copy.deepcopy(self.subst[node.id]), node)
        if node.id in self.rename:
            return ast.copy_location(ast.Name(id=self.rename[node.id], ctx=node.ctx), node)
        return node

    def visit_arg(self, node):
        return node

    def visit_FunctionDef(self, node):
        a = node.args
        shadow = {x.arg for x in a.posonlyargs + a.args + a.kwonlyargs} | ({a.vararg.arg} if a.vararg else set()) | ({a.kwarg.arg} if a.kwarg else set())
        inner = _Rename({k: v for k, v in self.subst.items() if k not in shadow}, {k: v for k, v in self.rename.items() if k not in shadow})
        node.body = [inner.visit(st) for st in node.body]
        return node

    def visit_Lambda(self, node):
        a = node.args
        shadow = {x.arg for x in a.posonlyargs + a.args + a.kwonlyargs}
        inner = _Rename({k: v for k, v in self.subst.items() if k not in shadow}, {k: v for k, v in self.rename.items() if k not in shadow})
        node.body = inner.visit(node.body)
        return node


def _bind(helper: ast.FunctionDef, call: ast.Call, recv: Optional[ast.AST], kind: str) -> Optional[Dict[str, ast.AST]]:
    if any(isinstance(x, ast.Starred) for x in call.args) or any(k.arg is None for k in call.keywords):
        return None
    params = [a.arg for a in helper.args.args]
    binds: Dict[str, ast.AST] = {}
    if kind in ("method", "classmethod") and helper_in_class(helper):
        if not params:
            return None
        first = params.pop(0)
        if recv is None:
            return None
        binds[first] = recv if kind == "method" else recv
    if len(call.args) > len(params):
        return None
    for p, a in zip(params, call.args):
        binds[p] = a
    kwonly = [a.arg for a in helper.args.kwonlyargs]
    for k in call.keywords:
        if k.arg in binds or (k.arg not in params and k.arg not in kwonly):
            return None
        binds[k.arg] = k.value
    defaults = dict(zip(params[len(params) - len(helper.args.defaults):], helper.args.defaults))
    for a, d in zip(helper.args.kwonlyargs, helper.args.kw_defaults):
        if d is not None:
            defaults[a.arg] = d
    for p in params + kwonly:
        if p not in binds:
            if p not in defaults:
                return None
            binds[p] = defaults[p]
    return binds


def helper_in_class(helper) -> bool:
    return bool(getattr(helper, "_mdsa_in_class", False))


def instantiate(helper: ast.FunctionDef, binds: Dict[str, ast.AST], tag: str, raw: bool = False) -> Tuple[List[ast.stmt], Optional[ast.AST]]:
    """(statements, result expression) of the helper body with parameters bound"""
    body = copy.deepcopy(_body_wo_doc(helper))
    stored: Set[str] = set()
    for st in body:
        if isinstance(st, ast.FunctionDef):
            continue
        for n in ast.walk(st):
            if isinstance(n, ast.Name) and isinstance(n.ctx, (ast.Store, ast.Del)):
                stored.add(n.id)
    pre: List[ast.stmt] = []
    subst: Dict[str, ast.AST] = {}
    rename: Dict[str, str] = {}
    for p, a in binds.items():
        if p in stored:
            rename[p] = f"{p}__{tag}"
            pre.append(ast.Assign(targets=[ast.Name(id=rename[p], ctx=ast.Store())], value=copy.deepcopy(a), lineno=getattr(a, "lineno", helper.lineno), col_offset=0))
        else:
            subst[p] = a
    for s in stored:
        if s not in binds:
            rename[s] = f"{s}__{tag}"
    tr = _Rename(subst, rename)
    body = [tr.visit(st) for st in body]
    if raw:
        return pre + body, None
    result = None
    n_ret = sum(1 for st in body for n in _walk_local(st) if isinstance(n, ast.Return)) + sum(1 for st in body if isinstance(st, ast.Return))
    if body and isinstance(body[-1], ast.Return) and not any(_has_return(st) for st in body[:-1]):
        result = body[-1].value
        body = body[:-1]
    elif any(_has_return(st) for st in body):
        resn = f"ret__{tag}"
        body = [ast.Assign(targets=[ast.Name(id=resn, ctx=ast.Store())], value=ast.Constant(value=None), lineno=helper.lineno, col_offset=0)] + to_single_exit(body, resn)
        result = ast.Name(id=resn, ctx=ast.Load())
    return pre + body, result


class Inliner:
    def __init__(self, program, known: Set[str]):
        self.P = program
        self.known = known
        self.helpers: Dict[str, object] = {}  # qual -> FuncInfo of inlinable unknown helpers
        self.gen_helpers: Dict[str, object] = {}  # unknown private generator functions (inlined into `for` loops over them)
        self.touched: Set[str] = set()  # functions that received inlined code
        self.log: List[str] = []
        self.inlined_count: Dict[str, int] = {}
        for q, fi in program.functions.items():
            if q in known:
                continue
            is_prop = isinstance(fi.node, ast.FunctionDef) and any(isinstance(d, ast.Name) and d.id == "property" for d in fi.node.decorator_list)
            if not (_is_private(fi.name) or fi.parent is not None or is_prop):
                continue
            sh = helper_shape(fi.node)
            if sh is None and not is_prop and isinstance(fi.node, ast.FunctionDef) and not fi.node.decorator_list or sh is None and isinstance(fi.node, ast.FunctionDef) and all(isinstance(d, ast.Name) and d.id in ("staticmethod", "classmethod") for d in fi.node.decorator_list) and not is_prop:
                fm = first_match_as_expr(fi.node)
                if fm is not None and not (fi.node.args.vararg or fi.node.args.kwarg or fi.node.args.posonlyargs):
                    ret = ast.Return(value=fm)
                    ast.copy_location(ret, fi.node.body[-1])
                    ast.fix_missing_locations(ret)
                    fi.node.body = [ret]
                    sh = helper_shape(fi.node)
                    self.log.append(f"{q}: first-match loop is analysed as `{ast.unparse(fm)[:80]}`")
            if sh in ("guards", "tail") and not is_prop:
                pe = predicate_as_expr(fi.node)
                if pe is not None:
                    # a predicate with early returns is one condition: analysed as an expression helper
                    ret = ast.Return(value=pe)
                    ast.copy_location(ret, fi.node.body[-1])
                    ast.fix_missing_locations(ret)
                    fi.node.body = [ret]
                    sh = "expr"
                    self.log.append(f"{q}: predicate with early returns is analysed as the single condition `{ast.unparse(pe)[:80]}`")
            if sh is None:
                if _generator_shape(fi.node) and not is_prop and not self._calls_itself(fi):
                    fi.node._mdsa_in_class = fi.cls is not None and fi.parent is None
                    self.gen_helpers[q] = fi
                continue
            if is_prop and (fi.cls is None or fi.parent is not None or len(fi.node.args.args) != 1):
                continue
            fi.node._mdsa_in_class = fi.cls is not None and fi.parent is None
            if self._calls_itself(fi):
                continue
            self.helpers[q] = fi

    def _calls_itself(self, fi) -> bool:
        for n in ast.walk(fi.node):
            if isinstance(n, ast.Call):
                f = n.func
                nm = f.attr if isinstance(f, ast.Attribute) else f.id if isinstance(f, ast.Name) else None
                if nm == fi.name:
                    return True
        return False

    # ---------------------------------------------------------------- resolution
    def resolve(self, caller, call: ast.Call, table=None):
        """-> (helper FuncInfo, receiver expr or None) if the call targets an inlinable unknown helper"""
        if table is not None:
            saved = self.helpers
            self.helpers = table
            try:
                return self.resolve(caller, call)
            finally:
                self.helpers = saved
        f = call.func
        P = self.P
        if isinstance(f, ast.Name):
            c = caller
            while c is not None:
                if f.id in c.nested:
                    fi = c.nested[f.id]
                    return (fi, None) if fi.qual in self.helpers else None
                c = c.parent
            ref = P.resolve_name(caller.module, f.id)
            if ref and ref.startswith("repo:"):
                q = P.canonical(ref)[5:] if hasattr(P, "canonical") else ref[5:]
                fi = P.functions.get(q)
                if fi is not None and fi.qual in self.helpers and fi.cls is None:
                    return fi, None
            fi = caller.module.functions.get(f.id)
            if fi is not None and fi.qual in self.helpers:
                return fi, None
            return None
        if isinstance(f, ast.Attribute) and isinstance(f.value, ast.Name):
            cls = caller.cls
            if cls is None and caller.parent is not None:
                c = caller
                while c is not None and c.cls is None:
                    c = c.parent
                cls = c.cls if c is not None else None
            if f.value.id in ("self", "cls") and cls is not None:
                r = P.lookup_method(cls.qual, f.attr)
                if r is not None:
                    fi = r[1]
                    if getattr(fi, "qual", None) in self.helpers:
                        return fi, f.value
                return None
            ref = P.resolve_name(caller.module, f.value.id)
            if ref and ref.startswith("repo:"):
                cq = ref[5:]
                if cq in P.classes:
                    r = P.lookup_method(cq, f.attr)
                    if r is not None and getattr(r[1], "qual", None) in self.helpers:
                        return r[1], f.value
            if not ref:
                # `obj._helper(..)` on a local object: a new private method name that exists exactly once in the package
                # (and in a class of the caller's module) can only be that method
                cands = [h for h in self.helpers.values() if h.name == f.attr and h.cls is not None and h.parent is None and h.module is caller.module and _method_kind(h.node) == "method"]
                others = [c for c in P.classes.values() if f.attr in c.methods and (not cands or c.methods[f.attr] is not cands[0])]
                if len(cands) == 1 and not others and f.attr.startswith("_") and not f.attr.startswith("__"):
                    return cands[0], f.value
        return None

    # ---------------------------------------------------------------- rewriting
    def run(self):
        n = 0
        for _round in range(3):  # helpers calling helpers
            changed = 0
            for fi in list(self.P.functions.values()):
                if not isinstance(fi.node, (ast.FunctionDef, ast.AsyncFunctionDef)):
                    continue
                changed += self._rewrite_function(fi)
            n += changed
            if not changed:
                break
        return n

    def drop_fully_inlined(self):
        """A helper all of whose uses were inlined is dead code in the analysed view: remove it from the program
        tables (its statements are analysed in the callers).  Helpers still referenced by name (callbacks, call
        sites that could not be inlined) stay."""
        P = self.P
        allh = dict(self.helpers)
        allh.update(self.gen_helpers)
        names = {fi.name for fi in allh.values()}
        used: Set[str] = set()
        for m in P.modules.values():
            for n in ast.walk(m.tree):
                if isinstance(n, ast.Attribute) and n.attr in names:
                    used.add(n.attr)
                elif isinstance(n, ast.Name) and n.id in names:
                    used.add(n.id)
        for q, fi in list(allh.items()):
            if fi.name in used or not self.inlined_count.get(q):
                continue
            # overridden / overriding methods stay (dynamic dispatch)
            if fi.cls is not None and fi.parent is None:
                others = [c for c in P.classes.values() if c is not fi.cls and fi.name in c.methods]
                if others:
                    continue
            P.functions.pop(q, None)
            if fi.parent is not None:
                fi.parent.nested.pop(fi.name, None)
            elif fi.cls is not None:
                fi.cls.methods.pop(fi.name, None)
            else:
                fi.module.functions.pop(fi.name, None)
            for sub in list(P.functions):
                if sub.startswith(q + ".<locals>."):
                    P.functions.pop(sub, None)
            self.log.append(f"{q}: all uses inlined, analysed in its callers")

    def _rewrite_function(self, fi) -> int:
        self._count = 0
        self._property_reads_as_calls(fi)
        before = {n.name for n in fi.node.body if isinstance(n, ast.FunctionDef)}
        fi.node.body = self._block(fi, fi.node.body)
        if self._count:
            self.touched.add(fi.qual)
            ast.fix_missing_locations(fi.node)
            if {n.name for n in ast.walk(fi.node) if isinstance(n, ast.FunctionDef) and n is not fi.node} - before - set(fi.nested):
                self._reindex_nested(fi)
        return self._count

    def _property_reads_as_calls(self, fi):
        """`self.p` where p is an unknown (inlinable) property of the class: analysed as the call `self.p()`"""
        cls = fi.cls
        c = fi
        while cls is None and c is not None:
            c = c.parent
            cls = c.cls if c is not None else None
        if cls is None:
            return
        props = {}
        for q, h in self.helpers.items():
            if any(isinstance(d, ast.Name) and d.id == "property" for d in h.node.decorator_list):
                props[h.name] = h
        if not props:
            return
        outer = self

        class T(ast.NodeTransformer):
            def visit_Attribute(self, node):
                self.generic_visit(node)
                if isinstance(node.ctx, ast.Load) and node.attr in props and isinstance(node.value, ast.Name) and node.value.id == "self":
                    r = outer.P.lookup_method(cls.qual, node.attr)
                    if r is not None and r[1] is props[node.attr] and fi is not props[node.attr]:
                        return ast.copy_location(ast.Call(func=node, args=[], keywords=[]), node)
                return node

            def visit_FunctionDef(self, node):
                return node if node is not fi.node else self.generic_visit(node)

        T().visit(fi.node)

    def _reindex_nested(self, fi):
        """local functions that came in with an inlined helper body are registered as nested functions of the caller"""
        from .loader import FuncInfo, _iter_defs

        P = self.P

        def drop(f_):
            for sub in f_.nested.values():
                drop(sub)
                P.functions.pop(sub.qual, None)

        def index(node, prefix, parent):
            q = f"{prefix}.{node.name}"
            nf = FuncInfo(q, fi.module, fi.cls, node, parent)
            P.functions[q] = nf
            for sub in _iter_defs(node.body):
                if isinstance(sub, (ast.FunctionDef, ast.AsyncFunctionDef)):
                    nf.nested[sub.name] = index(sub, q + ".<locals>", nf)
            return nf

        drop(fi)
        fi.nested = {}
        for sub in _iter_defs(fi.node.body):
            if isinstance(sub, (ast.FunctionDef, ast.AsyncFunctionDef)):
                fi.nested[sub.name] = index(sub, fi.qual + ".<locals>", fi)

    def _block(self, fi, body: List[ast.stmt]) -> List[ast.stmt]:
        out: List[ast.stmt] = []
        for st in body:
            out += self._stmt(fi, st)
        return out

    def _partials(self, fi, st: ast.stmt) -> List[ast.stmt]:
        """`partial(helper, a, b)` with an unknown helper and plain-name arguments: analysed as a local function
        `def helper__pN(<remaining parameters>): <helper body with a, b bound>` defined right before the statement."""
        outer = self
        pre: List[ast.stmt] = []

        class T(ast.NodeTransformer):
            def visit_FunctionDef(self, node):
                return node

            visit_AsyncFunctionDef = visit_ClassDef = visit_Lambda = visit_FunctionDef

            def generic_visit(self, node):
                for field, old in ast.iter_fields(node):
                    if isinstance(old, list):
                        if old and isinstance(old[0], ast.stmt):
                            continue
                        old[:] = [self.visit(v) if isinstance(v, ast.AST) else v for v in old]
                    elif isinstance(old, ast.AST):
                        setattr(node, field, self.visit(old))
                return node

            def visit_Call(self, node):
                self.generic_visit(node)
                fn = ast.unparse(node.func)
                if fn not in ("partial", "functools.partial") or not node.args or node.keywords:
                    return node
                if not all(isinstance(a, ast.Name) for a in node.args[1:]):
                    return node
                probe = ast.Call(func=node.args[0], args=[], keywords=[])
                r = outer.resolve(fi, probe)
                if r is None:
                    return node
                helper, recv = r
                if helper.qual == fi.qual:
                    return node
                hp = [a.arg for a in helper.node.args.args]
                if recv is not None and _method_kind(helper.node) in ("method", "classmethod") and helper_in_class(helper.node):
                    hp = hp[1:]
                bound = node.args[1:]
                if len(bound) > len(hp) or helper.node.args.kwonlyargs:
                    return node
                fake = ast.Call(func=node.args[0], args=list(bound) + [ast.Name(id=p_, ctx=ast.Load()) for p_ in hp[len(bound):]], keywords=[])
                binds = _bind(helper.node, fake, recv, _method_kind(helper.node))
                if binds is None:
                    return node
                outer._count += 1
                tag = f"p{outer._count}"
                rest = hp[len(bound):]
                # the remaining parameters keep their names (they are parameters of the new local function)
                binds = {k: v for k, v in binds.items() if k not in rest}
                body, _r = instantiate(helper.node, binds, tag, raw=True)
                name = f"{helper.name.strip('_')}__{tag}"
                new = ast.FunctionDef(name=name, args=ast.arguments(posonlyargs=[], args=[ast.arg(arg=p_) for p_ in rest], vararg=None, kwonlyargs=[], kw_defaults=[], kwarg=None, defaults=[]), body=body or [ast.Pass()], decorator_list=[], returns=None, type_comment=None)
                ast.copy_location(new, node)
                ast.fix_missing_locations(new)
                pre.append(new)
                outer.inlined_count[helper.qual] = outer.inlined_count.get(helper.qual, 0) + 1
                outer.log.append(f"{fi.qual}: partial({helper.qual}, ..) at L{getattr(node, 'lineno', '?')} analysed as a local function {name}")
                return ast.copy_location(ast.Name(id=name, ctx=ast.Load()), node)

        if isinstance(st, (ast.Assign, ast.AnnAssign, ast.AugAssign, ast.Expr, ast.Return, ast.If)):
            T().generic_visit(st)
        return pre

    def _stmt(self, fi, st: ast.stmt) -> List[ast.stmt]:
        if isinstance(st, (ast.FunctionDef, ast.AsyncFunctionDef, ast.ClassDef)):
            return [st]
        parts_pre = self._partials(fi, st)
        if parts_pre:
            return parts_pre + self._stmt(fi, st)
        # compound statements: recurse into blocks
        for fld in ("body", "orelse", "finalbody"):
            b = getattr(st, fld, None)
            if isinstance(b, list) and b and isinstance(b[0], ast.stmt):
                setattr(st, fld, self._block(fi, b))
        if isinstance(st, ast.Try):
            for h in st.handlers:
                h.body = self._block(fi, h.body)
        # `for x in helper(..): BODY` over an unknown private generator: the generator's body with BODY at each yield
        if isinstance(st, ast.For) and isinstance(st.iter, ast.Call) and not st.orelse and self.gen_helpers:
            r = self.resolve(fi, st.iter, table=self.gen_helpers)
            jumps = [x for b_ in st.body for x in _walk_loopfree(b_) if isinstance(x, (ast.Break, ast.Continue))]
            if r is not None and not jumps and r[0].qual != fi.qual:
                helper, recv = r
                binds = _bind(helper.node, st.iter, recv, _method_kind(helper.node))
                if binds is not None:
                    self._count += 1
                    tag = f"{helper.name.strip('_')}{self._count}"
                    stmts, _r = instantiate(helper.node, binds, tag, raw=True)
                    loop = st

                    class Y(ast.NodeTransformer):
                        def visit_Expr(self, node):
                            if isinstance(node.value, ast.Yield):
                                asg = ast.copy_location(ast.Assign(targets=[copy.deepcopy(loop.target)], value=node.value.value), node)
                                return [asg] + copy.deepcopy(loop.body)
                            return node

                    wrapper = ast.Module(body=stmts, type_ignores=[])
                    Y().visit(wrapper)
                    for x in wrapper.body:
                        ast.fix_missing_locations(x)
                    self.inlined_count[helper.qual] = self.inlined_count.get(helper.qual, 0) + 1
                    self.log.append(f"{fi.qual}: loop over the generator {helper.qual} at L{getattr(st, 'lineno', '?')} analysed as the generator's body with the loop body at each yield")
                    return self._block(fi, wrapper.body)
        # `if helper(..):` / `if not helper(..):` with a multi-exit helper: the helper's decision structure replaces
        # the test (each `return v` selects the branch v selects), so that rules see the conditions themselves
        if isinstance(st, ast.If):
            t, negated = st.test, False
            if isinstance(t, ast.UnaryOp) and isinstance(t.op, ast.Not):
                t, negated = t.operand, True
            if isinstance(t, ast.Call):
                r = self.resolve(fi, t)
                if r is not None and helper_shape(r[0].node) == "guards" and r[0].qual != fi.qual:
                    helper, recv = r
                    binds = _bind(helper.node, t, recv, _method_kind(helper.node))
                    if binds is not None:
                        self._count += 1
                        tag = f"{helper.name.strip('_')}{self._count}"
                        resn = f"ret__{tag}"
                        stmts, _res = instantiate(helper.node, binds, tag, raw=True)
                        body_t, body_f = (st.orelse, st.body) if negated else (st.body, st.orelse)

                        def branch(v):
                            if isinstance(v, ast.Constant):
                                return copy.deepcopy(body_t if v.value else body_f) or [ast.Pass()]
                            return [ast.If(test=v, body=copy.deepcopy(body_t) or [ast.Pass()], orelse=copy.deepcopy(body_f))]

                        try:
                            se = to_single_exit(stmts, resn, fallthrough=lambda: copy.deepcopy(body_f) or [ast.Pass()])
                        except _Unsupported:
                            se = None
                        if se is not None:
                            class R(ast.NodeTransformer):
                                def visit_Assign(self, node):
                                    if len(node.targets) == 1 and isinstance(node.targets[0], ast.Name) and node.targets[0].id == resn:
                                        return [ast.copy_location(x, node) for x in branch(node.value)]
                                    return node

                                def visit_FunctionDef(self, node):
                                    return node

                            wrapper = ast.Module(body=se, type_ignores=[])
                            R().visit(wrapper)
                            self.inlined_count[helper.qual] = self.inlined_count.get(helper.qual, 0) + 1
                            self.log.append(f"{fi.qual}: inlined the decision structure of {helper.qual} at L{getattr(st, 'lineno', '?')}")
                            for x in wrapper.body:
                                ast.copy_location(x, st)
                                ast.fix_missing_locations(x)
                            return wrapper.body
        # statement-level call forms
        call = None
        if isinstance(st, ast.Expr) and isinstance(st.value, ast.Call):
            call = st.value
        elif isinstance(st, ast.Assign) and isinstance(st.value, ast.Call):
            call = st.value
        elif isinstance(st, ast.AnnAssign) and isinstance(st.value, ast.Call):
            call = st.value
        elif isinstance(st, ast.Return) and isinstance(st.value, ast.Call):
            call = st.value
        if call is not None:
            r = self.resolve(fi, call)
            if r is not None:
                helper, recv = r
                binds = _bind(helper.node, call, recv, _method_kind(helper.node))
                if binds is not None and helper.qual != fi.qual:
                    # arguments may themselves contain inlinable expression helpers
                    self._count += 1
                    self.inlined_count[helper.qual] = self.inlined_count.get(helper.qual, 0) + 1
                    if helper_shape(helper.node) == "guards" and isinstance(st, (ast.Assign, ast.AnnAssign, ast.Return)):
                        # several exits: every `return v` of the helper becomes the statement itself with v in place of
                        # the call (`x = v` / `a, b = v` / `return v`) -- no temporary in between
                        tag = f"{helper.name.strip('_')}{self._count}"
                        resn = f"ret__{tag}"
                        raw_stmts, _r = instantiate(helper.node, binds, tag, raw=True)
                        try:
                            se = to_single_exit(raw_stmts, resn, fallthrough=lambda: [ast.Assign(targets=[ast.Name(id=resn, ctx=ast.Store())], value=ast.Constant(value=None), lineno=getattr(st, "lineno", 0), col_offset=0)])
                        except _Unsupported:
                            se = None
                        if se is not None:
                            outer_st = st

                            class R(ast.NodeTransformer):
                                def visit_Assign(self, node):
                                    if len(node.targets) == 1 and isinstance(node.targets[0], ast.Name) and node.targets[0].id == resn:
                                        new_ = copy.deepcopy(outer_st)
                                        new_.value = node.value
                                        return ast.copy_location(new_, outer_st)
                                    return node

                                def visit_FunctionDef(self, node):
                                    return node

                            wrapper = ast.Module(body=se, type_ignores=[])
                            R().visit(wrapper)
                            self.log.append(f"{fi.qual}: inlined {helper.qual} at L{getattr(st, 'lineno', '?')} (each exit assigns the target directly)")
                            for x in wrapper.body:
                                ast.fix_missing_locations(x)
                            return wrapper.body
                    stmts, result = instantiate(helper.node, binds, f"{helper.name.strip('_')}{self._count}")
                    self.log.append(f"{fi.qual}: inlined {helper.qual} at L{getattr(st, 'lineno', '?')}")
                    tail: List[ast.stmt] = []
                    if isinstance(st, ast.Expr):
                        if result is not None and any(isinstance(x, ast.Call) for x in ast.walk(result)):
                            tail = [ast.copy_location(ast.Expr(value=result), st)]
                    elif isinstance(st, ast.Return):
                        tail = [ast.copy_location(ast.Return(value=result if result is not None else ast.Constant(value=None)), st)]
                    else:
                        new = copy.copy(st)
                        new.value = result if result is not None else ast.Constant(value=None)
                        tail = [new]
                    for s in stmts:
                        ast.fix_missing_locations(s)
                    return stmts + tail
        # expression helpers anywhere inside the statement's own expressions
        self._subst_expr_helpers(fi, st)
        # statement-shaped helpers called inside a larger expression of a simple statement or an `if` header:
        # hoist the helper's statements in front of the statement and put its result in place of the call
        pre: List[ast.stmt] = []
        if isinstance(st, (ast.Assign, ast.AnnAssign, ast.AugAssign, ast.Expr, ast.Return, ast.Delete, ast.Raise, ast.Assert, ast.If)):
            pre = self._hoist(fi, st)
        return pre + [st]

    def _hoist(self, fi, st: ast.stmt) -> List[ast.stmt]:
        outer = self
        pre: List[ast.stmt] = []

        class T(ast.NodeTransformer):
            def visit_FunctionDef(self, node):
                return node

            visit_AsyncFunctionDef = visit_ClassDef = visit_Lambda = visit_FunctionDef
            visit_ListComp = visit_SetComp = visit_DictComp = visit_GeneratorExp = visit_FunctionDef

            def generic_visit(self, node):
                for field, old in ast.iter_fields(node):
                    if isinstance(old, list):
                        if old and isinstance(old[0], ast.stmt):
                            continue
                        old[:] = [self.visit(v) if isinstance(v, ast.AST) else v for v in old]
                    elif isinstance(old, ast.AST):
                        setattr(node, field, self.visit(old))
                return node

            def visit_Call(self, node):
                self.generic_visit(node)
                r = outer.resolve(fi, node)
                if r is None:
                    return node
                helper, recv = r
                if helper.qual == fi.qual:
                    return node
                binds = _bind(helper.node, node, recv, _method_kind(helper.node))
                if binds is None:
                    return node
                outer._count += 1
                stmts, result = instantiate(helper.node, binds, f"{helper.name.strip('_')}{outer._count}")
                if result is None:
                    result = ast.Constant(value=None)
                outer.inlined_count[helper.qual] = outer.inlined_count.get(helper.qual, 0) + 1
                outer.log.append(f"{fi.qual}: hoisted {helper.qual} at L{getattr(node, 'lineno', '?')}")
                for s_ in stmts:
                    ast.fix_missing_locations(s_)
                pre.extend(stmts)
                return ast.copy_location(result, node)

        T().generic_visit(st)
        return pre

    def _subst_expr_helpers(self, fi, st: ast.stmt):
        outer = self

        class T(ast.NodeTransformer):
            def visit_FunctionDef(self, node):
                return node

            visit_AsyncFunctionDef = visit_ClassDef = visit_FunctionDef

            def generic_visit(self, node):
                # do not descend into nested statement blocks (handled by _block)
                for field, old in ast.iter_fields(node):
                    if isinstance(old, list):
                        if old and isinstance(old[0], ast.stmt):
                            continue
                        new = []
                        for v in old:
                            if isinstance(v, ast.AST):
                                v = self.visit(v)
                            new.append(v)
                        old[:] = new
                    elif isinstance(old, ast.AST):
                        setattr(node, field, self.visit(old))
                return node

            def visit_Call(self, node):
                self.generic_visit(node)
                r = outer.resolve(fi, node)
                if r is None:
                    return node
                helper, recv = r
                if helper_shape(helper.node) != "expr" or helper.qual == fi.qual:
                    return node
                binds = _bind(helper.node, node, recv, _method_kind(helper.node))
                if binds is None:
                    return node
                outer._count += 1
                stmts, result = instantiate(helper.node, binds, f"{helper.name.strip('_')}{outer._count}")
                if stmts or result is None:
                    return node
                outer.inlined_count[helper.qual] = outer.inlined_count.get(helper.qual, 0) + 1
                outer.log.append(f"{fi.qual}: substituted {helper.qual} at L{getattr(node, 'lineno', '?')}")
                return ast.copy_location(result, node)

        T().generic_visit(st)


def _inline_prebuilt_callables(program, known: Set[str]) -> List[str]:
    """`_g = factory("x")` at module level (an unknown private name whose value is a call of a function of the same
    module), used as `_g(self, ..)`: the use sites are analysed as `factory("x")(self, ..)`, the form the rules know for
    callables made on the spot.  (Only *when* the callable is made differs, not what is called.)"""
    log = []
    for m in program.modules.values():
        cands = {}
        regexes: Dict[str, ast.AST] = {}  # _RX = re.compile("..") used as _RX.match(x): analysed as re.match("..", x)
        consts: Dict[str, ast.AST] = {}  # _X = <expression over module-level names>: uses analysed as that expression
        counts: Dict[str, int] = {}
        for st in m.tree.body:
            if isinstance(st, ast.Assign):
                for t in st.targets:
                    if isinstance(t, ast.Name):
                        counts[t.id] = counts.get(t.id, 0) + 1
            elif isinstance(st, ast.AnnAssign) and isinstance(st.target, ast.Name) and st.value is not None:
                counts[st.target.id] = counts.get(st.target.id, 0) + 1
        for name, val in m.assigns.items():
            literal = isinstance(val, ast.Constant) or (isinstance(val, ast.UnaryOp) and isinstance(val.operand, ast.Constant))
            # (a new public NAME = <literal> is a name for that literal just the same)
            if not (_is_private(name) or literal) or f"={m.name}.{name}" in known or counts.get(name) != 1:
                continue
            if isinstance(val, ast.Call) and isinstance(val.func, ast.Name) and val.func.id in m.functions and all(isinstance(a, ast.Constant) for a in list(val.args) + [k.value for k in val.keywords]):
                cands[name] = val
            elif isinstance(val, ast.Call) and ast.unparse(val.func) == "re.compile" and len(val.args) == 1 and isinstance(val.args[0], ast.Constant) and not val.keywords:
                regexes[name] = val.args[0]
            elif not any(isinstance(x, (ast.Lambda, ast.ListComp, ast.SetComp, ast.DictComp, ast.GeneratorExp, ast.Await, ast.Yield, ast.NamedExpr)) for x in ast.walk(val)) and all(
                    x.id in m.assigns or x.id in m.imports or x.id in m.classes or x.id in m.functions or x.id in ("True", "False", "None") or x.id in dir(__builtins__) if not isinstance(__builtins__, dict) else True
                    for x in ast.walk(val) if isinstance(x, ast.Name)):
                # a value computed once from other module-level names (`_X = CONST.tobytes()`): a name for that expression
                consts[name] = val
        if not cands and not regexes and not consts:
            continue

        class T(ast.NodeTransformer):
            hits = 0

            def visit_Name(self, node):
                if isinstance(node.ctx, ast.Load) and node.id in consts:
                    T.hits += 1
                    return ast.copy_location(copy.deepcopy(consts[node.id]), node)
                return node

            def visit_Call(self, node):
                self.generic_visit(node)
                if isinstance(node.func, ast.Attribute) and isinstance(node.func.value, ast.Name) and node.func.value.id in regexes and node.func.attr in ("match", "fullmatch", "search", "sub", "subn", "split", "findall", "finditer"):
                    T.hits += 1
                    pat_ = copy.deepcopy(regexes[node.func.value.id])
                    node.func = ast.copy_location(ast.Attribute(value=ast.Name(id="re", ctx=ast.Load()), attr=node.func.attr, ctx=ast.Load()), node.func)
                    node.args = [pat_] + list(node.args)
                    ast.fix_missing_locations(node)
                    return node
                if isinstance(node.func, ast.Name) and node.func.id in cands:
                    T.hits += 1
                    node.func = ast.copy_location(copy.deepcopy(cands[node.func.id]), node.func)
                    ast.fix_missing_locations(node)
                return node

        for fi in list(program.functions.values()):
            if fi.module is m and fi.parent is None and not isinstance(fi.node, ast.Lambda):
                local_stores = {x.id for x in ast.walk(fi.node) if isinstance(x, ast.Name) and isinstance(x.ctx, ast.Store)} | {a.arg for a in ast.walk(fi.node) if isinstance(a, ast.arg)}
                if local_stores & (set(cands) | set(regexes) | set(consts)):
                    continue
                before = T.hits
                T().visit(fi.node)
                if T.hits > before:
                    log.append(f"{fi.qual}: uses of the module-level callable(s) / compiled pattern(s) {sorted(set(cands) | set(regexes) | set(consts))} analysed as their defining expression")
    return log


def _scalar_replacement(program, known: Set[str]) -> List[str]:
    """Aggregates that only carry values between statements are taken apart, so that rules see the values:
      1. an *unknown* NamedTuple class (not in the table of known classes, no methods) is a plain tuple: `NT(a, b)` is
         `(a, b)` and `x.field` is `x[i]` where x is a local that only ever holds such tuples (built here or returned by
         a function whose every return builds one);
      2. a local that is only assigned tuple literals of one arity and only read as `t[<const>]` is split into one
         local per component."""
    log: List[str] = []
    nts: Dict[str, List[str]] = {}
    for q, c in program.classes.items():
        if f"@{q}" in known or c.methods:
            continue
        if any(isinstance(b, ast.Name) and b.id == "NamedTuple" or isinstance(b, ast.Attribute) and b.attr == "NamedTuple" for b in c.node.bases):
            fields = [st.target.id for st in c.node.body if isinstance(st, ast.AnnAssign) and isinstance(st.target, ast.Name)]
            if fields and not any(isinstance(st, ast.AnnAssign) and st.value is not None for st in c.node.body):
                nts[c.name] = fields

    def as_tuple(call: ast.Call) -> Optional[ast.Tuple]:
        fields = nts[call.func.id]
        if any(isinstance(a, ast.Starred) for a in call.args) or any(k.arg is None for k in call.keywords) or len(call.args) > len(fields):
            return None
        vals = dict(zip(fields, call.args))
        for k in call.keywords:
            if k.arg in vals or k.arg not in fields:
                return None
            vals[k.arg] = k.value
        if set(vals) != set(fields):
            return None
        t = ast.copy_location(ast.Tuple(elts=[vals[f_] for f_ in fields], ctx=ast.Load()), call)
        t._mdsa_nt = call.func.id
        return t

    funcs = [fi for fi in program.functions.values() if isinstance(fi.node, (ast.FunctionDef, ast.AsyncFunctionDef))]
    if nts:
        class Ctor(ast.NodeTransformer):
            def visit_Call(self, node):
                self.generic_visit(node)
                if isinstance(node.func, ast.Name) and node.func.id in nts:
                    t = as_tuple(node)
                    if t is not None:
                        return t
                return node

        for fi in funcs:
            if fi.parent is None:
                Ctor().visit(fi.node)
        # functions whose every value return builds a tuple of one NamedTuple class
        returns_nt: Dict[str, str] = {}
        for fi in funcs:
            rv = [n.value for n in _walk_local(fi.node) if isinstance(n, ast.Return) and n.value is not None and not (isinstance(n.value, ast.Constant) and n.value.value is None)]
            kinds = {getattr(v, "_mdsa_nt", None) for v in rv}
            if rv and len(kinds) == 1 and None not in kinds:
                returns_nt[fi.name] = kinds.pop()

        def value_nt(v) -> Optional[str]:
            if getattr(v, "_mdsa_nt", None):
                return v._mdsa_nt
            if isinstance(v, ast.Call):
                nm = v.func.attr if isinstance(v.func, ast.Attribute) else v.func.id if isinstance(v.func, ast.Name) else None
                return returns_nt.get(nm)
            return None

        for fi in funcs:
            stores: Dict[str, List[Optional[str]]] = {}
            for n in _walk_local(fi.node):
                if isinstance(n, (ast.Assign, ast.AnnAssign)) and n.value is not None:
                    for t in (n.targets if isinstance(n, ast.Assign) else [n.target]):
                        if isinstance(t, ast.Name):
                            stores.setdefault(t.id, []).append(value_nt(n.value))
                        else:
                            for x in ast.walk(t):
                                if isinstance(x, ast.Name) and isinstance(x.ctx, ast.Store):
                                    stores.setdefault(x.id, []).append(None)
                elif isinstance(n, (ast.For, ast.AsyncFor, ast.NamedExpr, ast.AugAssign, ast.comprehension)):
                    for x in ast.walk(n.target):
                        if isinstance(x, ast.Name):
                            stores.setdefault(x.id, []).append(None)
                elif isinstance(n, (ast.With, ast.AsyncWith)):
                    for it in n.items:
                        if it.optional_vars is not None:
                            for x in ast.walk(it.optional_vars):
                                if isinstance(x, ast.Name):
                                    stores.setdefault(x.id, []).append(None)
                elif isinstance(n, ast.ExceptHandler) and n.name:
                    stores.setdefault(n.name, []).append(None)
            holder = {nm: ks[0] for nm, ks in stores.items() if ks and None not in ks and len(set(ks)) == 1}
            a_ = fi.node.args
            for p_ in a_.posonlyargs + a_.args + a_.kwonlyargs:
                holder.pop(p_.arg, None)
            if not holder and not returns_nt:
                continue

            class Proj(ast.NodeTransformer):
                hits = 0

                def visit_Attribute(self, node):
                    self.generic_visit(node)
                    if not isinstance(node.ctx, ast.Load):
                        return node
                    cls_ = holder.get(node.value.id) if isinstance(node.value, ast.Name) else value_nt(node.value)
                    if cls_ and node.attr in nts[cls_]:
                        Proj.hits += 1
                        return ast.copy_location(ast.Subscript(value=node.value, slice=ast.Constant(value=nts[cls_].index(node.attr)), ctx=ast.Load()), node)
                    return node

            Proj().visit(fi.node)
            if Proj.hits:
                ast.fix_missing_locations(fi.node)
                log.append(f"{fi.qual}: fields of unknown NamedTuple value(s) {sorted(set(holder.values()) | set(returns_nt.values()))} read as tuple components")
    # 2. split locals that only hold tuple literals
    for fi in funcs:
        st_: Dict[str, List[ast.AST]] = {}
        bad: Set[str] = set()
        for n in _walk_local(fi.node):
            if isinstance(n, ast.Assign) and len(n.targets) == 1 and isinstance(n.targets[0], ast.Name):
                if isinstance(n.value, ast.Tuple) and not any(isinstance(e, ast.Starred) for e in n.value.elts):
                    st_.setdefault(n.targets[0].id, []).append(n)
                else:
                    bad.add(n.targets[0].id)
            elif isinstance(n, ast.Name) and isinstance(n.ctx, (ast.Store, ast.Del)):
                pass
        if not st_:
            continue
        parents = {}
        for p_ in ast.walk(fi.node):
            for ch in ast.iter_child_nodes(p_):
                parents[id(ch)] = p_
        plain_targets = {id(n.targets[0]) for ns in st_.values() for n in ns}
        for n in _walk_local(fi.node):
            if isinstance(n, ast.Name) and n.id in st_:
                up = parents.get(id(n))
                if isinstance(n.ctx, ast.Load):
                    if not (isinstance(up, ast.Subscript) and up.value is n and isinstance(up.slice, ast.Constant) and isinstance(up.slice.value, int) and isinstance(up.ctx, ast.Load)):
                        bad.add(n.id)
                elif id(n) not in plain_targets:
                    bad.add(n.id)
        a_ = fi.node.args
        bad |= {p_.arg for p_ in a_.posonlyargs + a_.args + a_.kwonlyargs}
        # names used inside nested functions / comprehensions stay
        for n in ast.walk(fi.node):
            if isinstance(n, (ast.FunctionDef, ast.Lambda)) and n is not fi.node:
                bad |= {x.id for x in ast.walk(n) if isinstance(x, ast.Name)}
        todo = {}
        for nm, ns in st_.items():
            ar = {len(n.value.elts) for n in ns}
            if nm in bad or len(ar) != 1:
                continue
            k = ar.pop()
            idx_ok = all(0 <= parents[id(x)].slice.value < k for x in _walk_local(fi.node) if isinstance(x, ast.Name) and x.id == nm and isinstance(x.ctx, ast.Load))
            if idx_ok and k > 0:
                todo[nm] = k
        if not todo:
            continue

        class Split(ast.NodeTransformer):
            def visit_Assign(self, node):
                self.generic_visit(node)
                if len(node.targets) == 1 and isinstance(node.targets[0], ast.Name) and node.targets[0].id in todo and isinstance(node.value, ast.Tuple):
                    nm = node.targets[0].id
                    tg = ast.Tuple(elts=[ast.Name(id=f"{nm}__{i}", ctx=ast.Store()) for i in range(todo[nm])], ctx=ast.Store())
                    return ast.copy_location(ast.Assign(targets=[tg], value=node.value), node)
                return node

            def visit_Subscript(self, node):
                if isinstance(node.value, ast.Name) and node.value.id in todo and isinstance(node.ctx, ast.Load) and isinstance(node.slice, ast.Constant):
                    return ast.copy_location(ast.Name(id=f"{node.value.id}__{node.slice.value}", ctx=ast.Load()), node)
                return self.generic_visit(node)

            def visit_FunctionDef(self, node):
                return self.generic_visit(node) if node is fi.node else node

        Split().visit(fi.node)
        ast.fix_missing_locations(fi.node)
        log.append(f"{fi.qual}: tuple-valued local(s) {sorted(todo)} split into components")
    return log


_INLINED_TEMP = re.compile(r"__[A-Za-z_]\w*?\d+$")


def _simplify_inlined(program, touched: Set[str]) -> List[str]:
    """Clean-up of functions that received inlined helper bodies, so that the result has the shape of hand-written code:
      1. conditions decided by a constant argument (`a if True else b`, `if False: ..`) are folded;
      2. a dict temp of an inlined helper that is only filled by `t[k] = v` and then handed to one `x.update(t)` is
         written into x directly (`x[k] = v`);
      3. `for a, b in {k: E(k) for k in S}.items()` (the comprehension held in a local used nowhere else) is the loop
         `for a in S: b = E(a)`."""
    log: List[str] = []
    for q in sorted(touched):
        fi = program.functions.get(q)
        if fi is None or not isinstance(fi.node, (ast.FunctionDef, ast.AsyncFunctionDef)):
            continue
        changed = []

        # 1. constant folding
        class Fold(ast.NodeTransformer):
            n = 0

            def visit_IfExp(self, node):
                self.generic_visit(node)
                if isinstance(node.test, ast.Constant):
                    Fold.n += 1
                    return node.body if node.test.value else node.orelse
                return node

            def visit_If(self, node):
                self.generic_visit(node)
                if isinstance(node.test, ast.Constant):
                    Fold.n += 1
                    return (node.body if node.test.value else node.orelse) or [ast.copy_location(ast.Pass(), node)]
                return node

            def visit_UnaryOp(self, node):
                self.generic_visit(node)
                if isinstance(node.op, ast.Not) and isinstance(node.operand, ast.Constant) and isinstance(node.operand.value, bool):
                    Fold.n += 1
                    return ast.copy_location(ast.Constant(value=not node.operand.value), node)
                return node

            def visit_FunctionDef(self, node):
                return self.generic_visit(node) if node is fi.node else node

        Fold().visit(fi.node)
        if Fold.n:
            changed.append("constant conditions folded")

        def uses(name):
            return [n for n in _walk_local(fi.node) if isinstance(n, ast.Name) and n.id == name]

        parents = {}

        def reparent():
            parents.clear()
            for p_ in ast.walk(fi.node):
                for ch in ast.iter_child_nodes(p_):
                    parents[id(ch)] = p_

        # 2. dict temp + single update
        reparent()
        for st in list(_walk_local(fi.node)):
            if not (isinstance(st, (ast.Assign, ast.AnnAssign)) and st.value is not None):
                continue
            tg = st.targets[0] if isinstance(st, ast.Assign) and len(st.targets) == 1 else st.target if isinstance(st, ast.AnnAssign) else None
            if not isinstance(tg, ast.Name) or not _INLINED_TEMP.search(tg.id):
                continue
            if not (isinstance(st.value, ast.Dict) and not st.value.keys or ast.unparse(st.value) == "dict()"):
                continue
            t = tg.id
            us = [u for u in uses(t) if u is not tg]
            stores, updates, other = [], [], []
            for u in us:
                up = parents.get(id(u))
                up2 = parents.get(id(up))
                if isinstance(up, ast.Subscript) and up.value is u and isinstance(up.ctx, ast.Store) and isinstance(up2, ast.Assign) and len(up2.targets) == 1:
                    stores.append((up, up2))
                elif isinstance(up, ast.Call) and u in up.args and len(up.args) == 1 and not up.keywords and isinstance(up.func, ast.Attribute) and up.func.attr == "update" and isinstance(up2, ast.Expr):
                    updates.append((up, up2))
                else:
                    other.append(u)
            if other or len(updates) != 1 or not stores:
                continue
            dest = updates[0][0].func.value
            for sub, asg in stores:
                sub.value = copy.deepcopy(dest)
            # drop the initialisation and the update statement
            for dead in (st, updates[0][1]):
                owner = parents.get(id(dead))
                for fld in ("body", "orelse", "finalbody"):
                    b = getattr(owner, fld, None)
                    if isinstance(b, list) and dead in b:
                        b[b.index(dead)] = ast.copy_location(ast.Pass(), dead)
            changed.append(f"temporary dict {t} written into {ast.unparse(dest)} directly")
            reparent()

        # 3. loop over the items of a one-use dict comprehension
        reparent()
        for loop in [n for n in _walk_local(fi.node) if isinstance(n, ast.For)]:
            it = loop.iter
            if not (isinstance(it, ast.Call) and isinstance(it.func, ast.Attribute) and it.func.attr == "items" and not it.args and isinstance(it.func.value, ast.Name)):
                continue
            d = it.func.value.id
            defs = [n for n in _walk_local(fi.node) if isinstance(n, ast.Assign) and len(n.targets) == 1 and isinstance(n.targets[0], ast.Name) and n.targets[0].id == d]
            if len(defs) != 1 or not isinstance(defs[0].value, ast.DictComp) or len([u for u in uses(d)]) != 2:
                continue
            comp = defs[0].value
            if len(comp.generators) != 1 or comp.generators[0].ifs or not isinstance(comp.generators[0].target, ast.Name) or ast.unparse(comp.key) != comp.generators[0].target.id:
                continue
            if not (isinstance(loop.target, ast.Tuple) and len(loop.target.elts) == 2 and all(isinstance(x, ast.Name) for x in loop.target.elts)):
                continue
            kv, vv = loop.target.elts[0].id, loop.target.elts[1].id
            cv = comp.generators[0].target.id

            class Ren(ast.NodeTransformer):
                def visit_Name(self, node):
                    return ast.copy_location(ast.Name(id=kv, ctx=node.ctx), node) if node.id == cv else node

            val = Ren().visit(copy.deepcopy(comp.value))
            loop.target = ast.copy_location(ast.Name(id=kv, ctx=ast.Store()), loop.target)
            loop.iter = comp.generators[0].iter
            loop.body.insert(0, ast.copy_location(ast.Assign(targets=[ast.Name(id=vv, ctx=ast.Store())], value=val), loop))
            owner = parents.get(id(defs[0]))
            for fld in ("body", "orelse", "finalbody"):
                b = getattr(owner, fld, None)
                if isinstance(b, list) and defs[0] in b:
                    b[b.index(defs[0])] = ast.copy_location(ast.Pass(), defs[0])
            changed.append(f"loop over the items of the one-use comprehension {d} rewritten as a loop over its source")
            reparent()
        if changed:
            ast.fix_missing_locations(fi.node)
            for attr in ("_mdsa_single_defs", "_mdsa_objnames"):
                if hasattr(fi.node, attr):
                    delattr(fi.node, attr)
            log.append(f"{fi.qual}: " + "; ".join(changed))
    return log


_LEN_CHANGERS = {"append", "extend", "insert", "pop", "remove", "clear"}


def _last_index_locals(program) -> List[str]:
    """`newest = len(xs) - 1 ... xs[newest]`  is  `xs[-1]`  when `newest` is assigned once and nothing in the function changes
    the length of xs (append / pop / del / re-assignment): the named position of the last element is the last element."""
    log: List[str] = []
    for fi in program.functions.values():
        fn = fi.node
        if not isinstance(fn, (ast.FunctionDef, ast.AsyncFunctionDef)):
            continue
        cands: Dict[str, Tuple[ast.stmt, str]] = {}
        stores: Dict[str, int] = {}
        for x in _walk_local(fn):
            if isinstance(x, ast.Name) and isinstance(x.ctx, ast.Store):
                stores[x.id] = stores.get(x.id, 0) + 1
        for st in _walk_local(fn):
            if isinstance(st, (ast.Assign, ast.AnnAssign)) and getattr(st, "value", None) is not None:
                tg = st.targets[0] if isinstance(st, ast.Assign) and len(st.targets) == 1 else getattr(st, "target", None)
                v = st.value
                if isinstance(tg, ast.Name) and stores.get(tg.id) == 1 and isinstance(v, ast.BinOp) and isinstance(v.op, ast.Sub) and isinstance(v.right, ast.Constant) and v.right.value == 1 and isinstance(v.left, ast.Call) and isinstance(v.left.func, ast.Name) and v.left.func.id == "len" and len(v.left.args) == 1 and isinstance(v.left.args[0], (ast.Attribute, ast.Name)):
                    cands[tg.id] = (st, ast.unparse(v.left.args[0]))
        if not cands:
            continue
        for name, (st, seq) in cands.items():
            changed = False
            for x in _walk_local(fn):
                if isinstance(x, ast.Call) and isinstance(x.func, ast.Attribute) and x.func.attr in _LEN_CHANGERS and ast.unparse(x.func.value) == seq:
                    changed = True
                if isinstance(x, (ast.Attribute, ast.Name)) and isinstance(getattr(x, "ctx", None), (ast.Store, ast.Del)) and ast.unparse(x) == seq:
                    changed = True
                if isinstance(x, ast.Delete) and any(isinstance(t, ast.Subscript) and ast.unparse(t.value) == seq for t in x.targets):
                    changed = True
            if changed:
                continue
            n = 0
            for x in _walk_local(fn):
                if isinstance(x, ast.Subscript) and isinstance(x.slice, ast.Name) and x.slice.id == name and ast.unparse(x.value) == seq:
                    x.slice = ast.copy_location(ast.UnaryOp(op=ast.USub(), operand=ast.Constant(value=1)), x.slice)
                    ast.fix_missing_locations(x)
                    n += 1
            if n:
                log.append(f"{fi.qual}: `{seq}[{name}]` with `{name} = len({seq}) - 1` is read as `{seq}[-1]` ({n} use(s))")
    return log


def _partition_unpack(program) -> List[str]:
    """`head, _, tail = s.rpartition('/')`  is  `head = '/'.join(s.split('/')[:-1]); tail = s.split('/')[-1]`  (for every str s:
    without a separator rpartition gives ('', '', s) and split gives [s]);  `head, _, tail = s.partition('/')`  is
    `head = s.split('/')[0]; tail = '/'.join(s.split('/')[1:])`.  The separator must be a string literal and the three
    targets plain names; the middle element becomes `'/' if '/' in s else ''` when it is used under a real name."""
    log: List[str] = []
    for fi in program.functions.values():
        fn = fi.node
        if not isinstance(fn, (ast.FunctionDef, ast.AsyncFunctionDef)):
            continue
        n = 0
        for holder in _walk_local(fn):
            for fld in ("body", "orelse", "finalbody"):
                stmts = getattr(holder, fld, None)
                if not isinstance(stmts, list):
                    continue
                out = []
                for st in stmts:
                    tg = st.targets[0] if isinstance(st, ast.Assign) and len(st.targets) == 1 else None
                    v = getattr(st, "value", None)
                    if (isinstance(tg, ast.Tuple) and len(tg.elts) == 3 and all(isinstance(e, ast.Name) for e in tg.elts) and isinstance(v, ast.Call)
                            and isinstance(v.func, ast.Attribute) and v.func.attr in ("partition", "rpartition") and len(v.args) == 1 and not v.keywords
                            and isinstance(v.args[0], ast.Constant) and isinstance(v.args[0].value, str) and v.args[0].value):
                        sep, recv = v.args[0], v.func.value
                        sp = lambda: ast.Call(func=ast.Attribute(value=copy.deepcopy(recv), attr="split", ctx=ast.Load()), args=[copy.deepcopy(sep)], keywords=[])
                        jn = lambda sl: ast.Call(func=ast.Attribute(value=copy.deepcopy(sep), attr="join", ctx=ast.Load()), args=[ast.Subscript(value=sp(), slice=sl, ctx=ast.Load())], keywords=[])
                        m1 = ast.UnaryOp(op=ast.USub(), operand=ast.Constant(value=1))
                        if v.func.attr == "rpartition":
                            hv = jn(ast.Slice(lower=None, upper=m1, step=None))
                            tv = ast.Subscript(value=sp(), slice=m1, ctx=ast.Load())
                        else:
                            hv = ast.Subscript(value=sp(), slice=ast.Constant(value=0), ctx=ast.Load())
                            tv = jn(ast.Slice(lower=ast.Constant(value=1), upper=None, step=None))
                        mv = ast.IfExp(test=ast.Compare(left=copy.deepcopy(sep), ops=[ast.In()], comparators=[copy.deepcopy(recv)]), body=copy.deepcopy(sep), orelse=ast.Constant(value=""))
                        for name, val in zip(tg.elts, (hv, mv, tv)):
                            if name.id.startswith("_") and val is mv:
                                continue
                            out.append(ast.fix_missing_locations(ast.copy_location(ast.Assign(targets=[ast.Name(id=name.id, ctx=ast.Store())], value=val), st)))
                        n += 1
                    else:
                        out.append(st)
                stmts[:] = out
        if n:
            log.append(f"{fi.qual}: {n} `a, _, b = s.(r)partition(sep)` unpacking(s) read as split / join expressions")
    return log


def _chain_fresh_stores(program) -> List[str]:
    """`v = {}` directly followed by `x[k] = v` (or `x.a = v`) is `v = x[k] = {}`: v names the very object stored there."""
    log: List[str] = []

    def fresh(e):
        return (isinstance(e, (ast.Dict, ast.List, ast.Set)) and not (getattr(e, "keys", None) or getattr(e, "elts", None))) or (isinstance(e, ast.Call) and isinstance(e.func, ast.Name) and e.func.id in ("dict", "list", "set") and not e.args and not e.keywords)

    for fi in program.functions.values():
        fn = fi.node
        if not isinstance(fn, (ast.FunctionDef, ast.AsyncFunctionDef)):
            continue
        todo = [fn]
        n = 0
        while todo:
            x = todo.pop()
            for fld in ("body", "orelse", "finalbody"):
                b = getattr(x, fld, None)
                if not (isinstance(b, list) and b and isinstance(b[0], ast.stmt)):
                    continue
                i = 0
                while i + 1 < len(b):
                    s1, s2 = b[i], b[i + 1]
                    t1 = s1.targets[0] if isinstance(s1, ast.Assign) and len(s1.targets) == 1 else s1.target if isinstance(s1, ast.AnnAssign) and s1.value is not None else None
                    if isinstance(t1, ast.Name) and fresh(s1.value) and isinstance(s2, ast.Assign) and len(s2.targets) == 1 and isinstance(s2.targets[0], (ast.Subscript, ast.Attribute)) and isinstance(s2.value, ast.Name) and s2.value.id == t1.id and not any(isinstance(y, ast.Call) for y in ast.walk(s2.targets[0])):
                        new = ast.Assign(targets=[ast.Name(id=t1.id, ctx=ast.Store()), s2.targets[0]], value=s1.value)
                        ast.copy_location(new, s1)
                        ast.fix_missing_locations(new)
                        b[i:i + 2] = [new]
                        n += 1
                    i += 1
                for st in b:
                    if not isinstance(st, (ast.FunctionDef, ast.AsyncFunctionDef, ast.ClassDef)):
                        todo.append(st)
            for h in getattr(x, "handlers", []) or []:
                todo.append(h)
        if n:
            log.append(f"{fi.qual}: {n} fresh container(s) stored right after creation are read as chained assignments")
    return log


def _if_else_assign_as_ifexp(program) -> List[str]:
    """`if c: v = a` / `else: v = b` (one plain assignment of the same local in each branch) is `v = a if c else b`;
    `x if x else y` is `x or y`."""
    log: List[str] = []

    def single_assign(body):
        if len(body) != 1:
            return None
        st = body[0]
        if isinstance(st, ast.Assign) and len(st.targets) == 1 and isinstance(st.targets[0], ast.Name):
            return st.targets[0].id, st.value
        if isinstance(st, ast.AnnAssign) and isinstance(st.target, ast.Name) and st.value is not None:
            return st.target.id, st.value
        return None

    class T(ast.NodeTransformer):
        n = 0

        def visit_FunctionDef(self, node):
            return node  # nested functions are handled as functions of their own

        visit_AsyncFunctionDef = visit_Lambda = visit_FunctionDef

        def visit_If(self, node):
            self.generic_visit(node)
            a, b = single_assign(node.body), single_assign(node.orelse)
            if a and b and a[0] == b[0] and not any(isinstance(x, (ast.NamedExpr, ast.Yield, ast.Await)) for x in ast.walk(node)):
                val = ast.IfExp(test=node.test, body=a[1], orelse=b[1])
                if isinstance(node.test, ast.Name) and isinstance(a[1], ast.Name) and a[1].id == node.test.id:
                    val = ast.BoolOp(op=ast.Or(), values=[a[1], b[1]])
                new = ast.Assign(targets=[ast.Name(id=a[0], ctx=ast.Store())], value=val)
                T.n += 1
                return ast.fix_missing_locations(ast.copy_location(new, node))
            return node

    for fi in program.functions.values():
        fn = fi.node
        if not isinstance(fn, (ast.FunctionDef, ast.AsyncFunctionDef)):
            continue
        before = T.n
        t = T()
        fn.body = [y for st in fn.body for y in (lambda r: r if isinstance(r, list) else [r])(t.visit(st) if not isinstance(st, (ast.FunctionDef, ast.AsyncFunctionDef, ast.ClassDef)) else st)]
        if T.n > before:
            log.append(f"{fi.qual}: {T.n - before} if/else assignment(s) of one local read as a conditional expression")
    return log


def _const_getattr(program) -> List[str]:
    """`getattr(x, "name")` with a literal identifier (typically what a helper taking the method name becomes once its
    argument is known) is `x.name`."""
    log: List[str] = []

    class T(ast.NodeTransformer):
        n = 0

        def visit_Call(self, node):
            self.generic_visit(node)
            if isinstance(node.func, ast.Name) and node.func.id == "getattr" and len(node.args) == 2 and not node.keywords and isinstance(node.args[1], ast.Constant) and isinstance(node.args[1].value, str) and node.args[1].value.isidentifier():
                T.n += 1
                return ast.copy_location(ast.Attribute(value=node.args[0], attr=node.args[1].value, ctx=ast.Load()), node)
            return node

    for fi in program.functions.values():
        if isinstance(fi.node, (ast.FunctionDef, ast.AsyncFunctionDef)) and getattr(fi, "parent", None) is None:
            before = T.n
            T().visit(fi.node)
            if T.n > before:
                ast.fix_missing_locations(fi.node)
                log.append(f"{fi.qual}: {T.n - before} getattr(x, '<name>') read as x.<name>")
    return log


def _bound_method_aliases(program) -> List[str]:
    """`m = obj.path.method` ... `m(args)` with m assigned once and used only as a callee is `obj.path.method(args)`."""
    log: List[str] = []
    for fi in program.functions.values():
        fn = fi.node
        if not isinstance(fn, (ast.FunctionDef, ast.AsyncFunctionDef)):
            continue
        stores: Dict[str, int] = {}
        for x in _walk_local(fn):
            if isinstance(x, ast.Name) and isinstance(x.ctx, ast.Store):
                stores[x.id] = stores.get(x.id, 0) + 1
        params = {a.arg for a in fn.args.posonlyargs + fn.args.args + fn.args.kwonlyargs}
        for st in list(_walk_local(fn)):
            if not (isinstance(st, ast.Assign) and len(st.targets) == 1 and isinstance(st.targets[0], ast.Name) and isinstance(st.value, ast.Attribute)):
                continue
            name = st.targets[0].id
            if stores.get(name) != 1 or name in params:
                continue
            v = st.value
            b = v
            while isinstance(b, ast.Attribute):
                b = b.value
            if not isinstance(b, ast.Name) or stores.get(b.id, 0) > 0 and b.id not in ("self", "cls"):
                continue
            loads = [x for x in ast.walk(fn) if isinstance(x, ast.Name) and x.id == name and isinstance(x.ctx, ast.Load)]
            callees = {id(c.func) for c in ast.walk(fn) if isinstance(c, ast.Call) and isinstance(c.func, ast.Name) and c.func.id == name}
            if not loads or any(id(x) not in callees for x in loads):
                continue
            for c in ast.walk(fn):
                if isinstance(c, ast.Call) and isinstance(c.func, ast.Name) and c.func.id == name:
                    c.func = ast.copy_location(copy.deepcopy(v), c.func)
                    ast.fix_missing_locations(c)
            log.append(f"{fi.qual}: `{name}(..)` with `{name} = {ast.unparse(v)}` is read as `{ast.unparse(v)}(..)`")
    return log


def apply(program) -> List[str]:
    known = load_known()
    if known is None:
        return []
    log = _inline_prebuilt_callables(program, known) if any(k.startswith("=") for k in known) else []
    inl = Inliner(program, known)
    if inl.helpers or inl.gen_helpers:
        inl.run()
        inl.drop_fully_inlined()
    sr = _scalar_replacement(program, known) if any(k.startswith("@") for k in known) else []
    sm = _simplify_inlined(program, inl.touched) if inl.touched else []
    li = _partition_unpack(program) + _last_index_locals(program) + _bound_method_aliases(program) + _chain_fresh_stores(program) + _if_else_assign_as_ifexp(program)
    if inl.touched:
        li += _const_getattr(program)
    return log + inl.log + sr + sm + li
