"""Structural pattern matching over expressions with metavariables, local-variable expansion and
polarity-normalised condition atoms.

Why: a rule that recognises a condition or a call by its *text* breaks on every behaviour-preserving edit that
renames a local, names a sub-expression, flips an if/else or rewrites `a not in b` as `not a in b`.  The rules
therefore describe constructs as patterns

    "__o.uuid in self._toc_path"          metavariable  __o   matches any expression (same name = same expression)
    "self._files[-1].create_group(___)"   ___           matches any remaining arguments / keywords
    "__"                                  wildcard without binding

and match them against expressions in which single-definition locals have been replaced by their defining
expressions (`expand`), so that `last = nodes[-1]; if last._gpath == path` and `if nodes[-1]._gpath == path`
are the same atom.  Conditions are matched as atoms of the CFG (see cfg.CFG._cond): the CFG carries the
and/or/not structure in its edges, an atom is always positive, and `find_tests` returns for each matching test
node the out-edge label on which the *pattern as written* (which may itself be negative) holds.
"""
from __future__ import annotations

import ast
import copy
from typing import Dict, Iterator, List, Optional, Tuple

from .cfg import polarity, walk_local

Binds = Dict[str, ast.AST]


def _is_meta(n: ast.AST) -> Optional[str]:
    if isinstance(n, ast.Name) and n.id.startswith("__") and (n.id in ("__", "___") or not n.id.endswith("__")):
        return n.id
    return None


def _txt(n: ast.AST) -> str:
    return " ".join(ast.unparse(n).split())


_CACHE: Dict[str, ast.AST] = {}


def pat(s: str) -> ast.AST:
    """Parse a pattern (an expression, or a simple statement)."""
    if s not in _CACHE:
        try:
            _CACHE[s] = ast.parse(s, mode="eval").body
        except SyntaxError:
            _CACHE[s] = ast.parse(s).body[0]
    return _CACHE[s]


def match(p, e, b: Optional[Binds] = None) -> Optional[Binds]:
    """Bindings if expression/statement e matches pattern p (str or ast), else None."""
    if isinstance(p, str):
        p = pat(p)
    b = dict(b or {})
    return b if _m(p, e, b) else None


def _m(p, e, b: Binds) -> bool:
    if isinstance(p, ast.AST):
        mv = _is_meta(p)
        if mv is not None:
            if not isinstance(e, ast.AST):
                return False
            if mv == "__" or mv == "___":
                return True
            if mv in b:
                return _txt(b[mv]) == _txt(e)
            b[mv] = e
            return True
        if isinstance(e, ast.NamedExpr) and not isinstance(p, ast.NamedExpr):
            return _m(p, e.value, b)  # (v := X) matches a pattern for X
        if type(p) is not type(e):
            return False
        if isinstance(p, ast.Call):
            return _m(p.func, e.func, b) and _margs(p, e, b)
        for f in p._fields:
            if f in ("ctx", "type_comment", "kind"):
                continue
            if not _m(getattr(p, f, None), getattr(e, f, None), b):
                return False
        return True
    if isinstance(p, list):
        if not isinstance(e, list) or len(p) != len(e):
            return False
        return all(_m(x, y, b) for x, y in zip(p, e))
    return p == e


# simple function name -> parameter order (without self/cls) when all repo functions of that name agree; set by the loader.
# Lets `f(a, b)` match `f(x=a, y=b)`: both are brought to keyword form under the callee's signature.
SIGNATURES: Dict[str, List[str]] = {}


def _kw_form(c: ast.Call, sig: List[str]):
    out = {}
    args = list(c.args)
    rest = bool(args) and _is_meta(args[-1]) == "___"
    if rest:
        args = args[:-1]
    if len(args) > len(sig) or any(isinstance(a, ast.Starred) for a in args):
        return None, rest
    for name, a in zip(sig, args):
        out[name] = a
    for k in c.keywords:
        if k.arg is None or k.arg in out:
            return None, rest
        out[k.arg] = k.value
    return out, rest


def positional(c: ast.Call) -> Optional[List[ast.AST]]:
    """the arguments of a call in the callee's parameter order (keywords placed by the repo signature of that name);
    None when the callee is unknown or the call does not fill a prefix of the parameters"""
    name = c.func.attr if isinstance(c.func, ast.Attribute) else c.func.id if isinstance(c.func, ast.Name) else None
    sig = SIGNATURES.get(name) if name else None
    if not c.keywords:
        return list(c.args)
    if sig is None:
        return None
    kw, _ = _kw_form(c, sig)
    if kw is None:
        return None
    out = []
    for p_ in sig:
        if p_ not in kw:
            break
        out.append(kw[p_])
    return out if len(out) == len(kw) else None


def _margs(p: ast.Call, e: ast.Call, b: Binds) -> bool:
    b0 = dict(b)
    if _margs_plain(p, e, b):
        return True
    name = e.func.attr if isinstance(e.func, ast.Attribute) else e.func.id if isinstance(e.func, ast.Name) else None
    sig = SIGNATURES.get(name) if name else None
    if sig is None or not (e.keywords or p.keywords):
        return False
    b.clear()
    b.update(b0)
    pk, rest = _kw_form(p, sig)
    ek, _ = _kw_form(e, sig)
    if pk is None or ek is None:
        return False
    for k, v in pk.items():
        if k not in ek or not _m(v, ek[k], b):
            return False
    return rest or set(pk) == set(ek)


def _margs_plain(p: ast.Call, e: ast.Call, b: Binds) -> bool:
    pargs = list(p.args)
    rest = bool(pargs) and _is_meta(pargs[-1]) == "___"
    if rest:
        pargs = pargs[:-1]
        if len(e.args) < len(pargs):
            return False
    elif len(e.args) != len(pargs):
        return False
    for x, y in zip(pargs, e.args):
        if not _m(x, y, b):
            return False
    ek = {k.arg: k.value for k in e.keywords}
    for k in p.keywords:
        if k.arg not in ek or not _m(k.value, ek[k.arg], b):
            return False
    if not rest and len(ek) != len(p.keywords):
        return False
    return True


def find(p, root: ast.AST, local: bool = True) -> Iterator[Tuple[ast.AST, Binds]]:
    """All sub-nodes of root matching p."""
    if isinstance(p, str):
        p = pat(p)
    it = walk_local(root) if local else ast.walk(root)
    for n in it:
        b = match(p, n)
        if b is not None:
            yield n, b


def contains(p, root: ast.AST) -> bool:
    return any(True for _ in find(p, root))


# ---------------------------------------------------------------------------------------------- expansion
class _Subst(ast.NodeTransformer):
    def __init__(self, defs: Dict[str, ast.AST], depth: int):
        self.defs = defs
        self.depth = depth
        self.stack: List[str] = []

    def visit_Name(self, node: ast.Name):
        if isinstance(node.ctx, ast.Load) and node.id in self.defs and node.id not in self.stack and len(self.stack) < self.depth:
            self.stack.append(node.id)
            import copy

            r = self.visit(copy.deepcopy(self.defs[node.id]))
            self.stack.pop()
            return ast.copy_location(r, node)
        return node

    def visit_NamedExpr(self, node: ast.NamedExpr):
        return self.visit(node.value)

    def visit_Lambda(self, node):
        return node

    def visit_ListComp(self, node):
        return self._comp(node)

    visit_SetComp = visit_GeneratorExp = visit_DictComp = visit_ListComp

    def _comp(self, node):
        bound = {x.id for g in node.generators for x in ast.walk(g.target) if isinstance(x, ast.Name)}
        saved = self.defs
        self.defs = {k: v for k, v in saved.items() if k not in bound}
        r = self.generic_visit(node)
        self.defs = saved
        return r


def is_plain_path(e: ast.AST) -> bool:
    """a name, or attribute / constant-subscript path from a name (no calls: evaluating it twice is the same value)"""
    while isinstance(e, (ast.Attribute, ast.Subscript)):
        if isinstance(e, ast.Subscript) and not isinstance(e.slice, ast.Constant):
            return False
        e = e.value
    return isinstance(e, ast.Name)


def canon_strings(e: ast.AST) -> ast.AST:
    """One spelling for string building: `a + "x" + str(b)` chains that contain a string literal become the f-string
    f"{a}x{b}" (and `str(v)` inside an f-string is `{v}`), so that both spellings compare equal as text."""

    def parts(x) -> Optional[list]:
        if isinstance(x, ast.BinOp) and isinstance(x.op, ast.Add):
            l, r = parts(x.left), parts(x.right)
            return None if l is None or r is None else l + r
        if isinstance(x, ast.Constant) and isinstance(x.value, str):
            return [x]
        if isinstance(x, ast.JoinedStr):
            out = []
            for v in x.values:
                if isinstance(v, ast.FormattedValue) and v.conversion == -1 and v.format_spec is None:
                    inner = _unstr(v.value)
                    sub = parts(inner) if isinstance(inner, (ast.JoinedStr, ast.BinOp)) and _is_strcat(inner) else None
                    out += sub if sub is not None else [inner]  # f"{f'a{b}'}c" is f"a{b}c"
                else:
                    out.append(v)
            return out
        if isinstance(x, ast.AST):
            return [_unstr(x)]
        return None

    def _is_strcat(v) -> bool:
        if isinstance(v, ast.JoinedStr):
            return True
        ps = parts(v) if isinstance(v, ast.BinOp) and isinstance(v.op, ast.Add) else None
        return ps is not None and any(isinstance(p_, ast.Constant) and isinstance(p_.value, str) for p_ in ps)

    def _unstr(v):
        if isinstance(v, ast.Call) and isinstance(v.func, ast.Name) and v.func.id == "str" and len(v.args) == 1 and not v.keywords:
            return v.args[0]
        return v

    class T(ast.NodeTransformer):
        def visit_BinOp(self, node):
            ps = parts(node) if isinstance(node.op, ast.Add) else None
            if ps is not None and any(isinstance(p_, ast.Constant) and isinstance(p_.value, str) for p_ in ps):
                return self._build(ps, node)
            return self.generic_visit(node)

        def visit_JoinedStr(self, node):
            return self._build(parts(node), node)

        def _build(self, ps, node):
            vals = []
            for p_ in ps:
                if isinstance(p_, ast.Constant) and isinstance(p_.value, str):
                    if vals and isinstance(vals[-1], ast.Constant):
                        vals[-1] = ast.Constant(value=vals[-1].value + p_.value)
                    else:
                        vals.append(ast.Constant(value=p_.value))
                elif isinstance(p_, ast.FormattedValue):
                    vals.append(p_)
                else:
                    vals.append(ast.FormattedValue(value=self.visit(copy.deepcopy(p_)), conversion=-1, format_spec=None))
            return ast.fix_missing_locations(ast.copy_location(ast.JoinedStr(values=vals), node))

    return T().visit(copy.deepcopy(e))


def canon_idioms(e: ast.AST) -> ast.AST:
    """Peephole equivalences between string idioms (one spelling each):
         s.partition(x)[0], s.split(x, 1)[0]      ->  s.split(x)[0]
         s.rpartition(x)[2], s.rsplit(x, 1)[-1]   ->  s.split(x)[-1]"""

    class T(ast.NodeTransformer):
        def visit_Compare(self, node):
            self.generic_visit(node)
            # over the integers:  len(x) + 1 > n,  n < len(x) + 1  ->  not (len(x) < n) ;  len(x) + 1 <= n,  n >= len(x) + 1  ->  len(x) < n
            if len(node.ops) == 1 and isinstance(node.ops[0], (ast.Gt, ast.LtE, ast.Lt, ast.GtE)):
                def _len_plus_one(x):
                    if isinstance(x, ast.BinOp) and isinstance(x.op, ast.Add):
                        a_, b_ = x.left, x.right
                        if isinstance(a_, ast.Constant):
                            a_, b_ = b_, a_
                        if isinstance(b_, ast.Constant) and b_.value == 1 and not isinstance(b_.value, bool) and isinstance(a_, ast.Call) and isinstance(a_.func, ast.Name) and a_.func.id == "len":
                            return a_
                    return None
                l_, r_, op_ = node.left, node.comparators[0], type(node.ops[0])
                ln, other, ge = None, None, None
                if _len_plus_one(l_) is not None and op_ in (ast.Gt, ast.LtE):
                    ln, other, ge = _len_plus_one(l_), r_, op_ is ast.Gt
                elif _len_plus_one(r_) is not None and op_ in (ast.Lt, ast.GtE):
                    ln, other, ge = _len_plus_one(r_), l_, op_ is ast.Lt
                if ln is not None:
                    lt = ast.Compare(left=ln, ops=[ast.Lt()], comparators=[other])
                    return ast.fix_missing_locations(ast.copy_location(ast.UnaryOp(op=ast.Not(), operand=lt) if ge else lt, node))
            # s.find(x) >= 0 / != -1 / > -1  ->  x in s ;  s.find(x) < 0 / == -1  ->  x not in s ;  s.count(x) > 0 -> x in s
            if len(node.ops) == 1 and isinstance(node.left, ast.Call) and isinstance(node.left.func, ast.Attribute) and node.left.func.attr in ("find", "count") and len(node.left.args) == 1 and not node.left.keywords:
                try:
                    c = ast.literal_eval(node.comparators[0])
                except Exception:
                    return node
                op = type(node.ops[0])
                find = node.left.func.attr == "find"
                pos = (find and ((op is ast.GtE and c == 0) or (op is ast.NotEq and c == -1) or (op is ast.Gt and c == -1))) or (not find and ((op is ast.Gt and c == 0) or (op is ast.GtE and c == 1) or (op is ast.NotEq and c == 0)))
                neg = (find and ((op is ast.Lt and c == 0) or (op is ast.Eq and c == -1) or (op is ast.LtE and c == -1))) or (not find and ((op is ast.Eq and c == 0) or (op is ast.Lt and c == 1)))
                if pos or neg:
                    return ast.fix_missing_locations(ast.copy_location(ast.Compare(left=node.left.args[0], ops=[ast.In() if pos else ast.NotIn()], comparators=[node.left.func.value]), node))
            return node

        def visit_Subscript(self, node):
            self.generic_visit(node)
            v, sl = node.value, node.slice
            # xs[len(xs) - 1]  ->  xs[-1]
            if isinstance(sl, ast.BinOp) and isinstance(sl.op, ast.Sub) and isinstance(sl.right, ast.Constant) and isinstance(sl.right.value, int) and sl.right.value >= 1 and isinstance(sl.left, ast.Call) and isinstance(sl.left.func, ast.Name) and sl.left.func.id == "len" and len(sl.left.args) == 1 and _txt(sl.left.args[0]) == _txt(v):
                node.slice = ast.UnaryOp(op=ast.USub(), operand=ast.Constant(value=sl.right.value))
                return ast.fix_missing_locations(node)
            if isinstance(v, ast.Call) and isinstance(v.func, ast.Attribute) and isinstance(sl, (ast.Constant, ast.UnaryOp)) and not v.keywords:
                try:
                    idx = ast.literal_eval(sl)
                except Exception:
                    return node
                m_, n_args = v.func.attr, len(v.args)
                first = (m_ == "partition" and n_args == 1 and idx == 0) or (m_ == "split" and n_args == 2 and isinstance(v.args[1], ast.Constant) and v.args[1].value == 1 and idx == 0)
                last = (m_ == "rpartition" and n_args == 1 and idx in (2, -1)) or (m_ == "rsplit" and n_args == 2 and isinstance(v.args[1], ast.Constant) and v.args[1].value == 1 and idx in (1, -1))
                if first or last:
                    call = ast.Call(func=ast.Attribute(value=v.func.value, attr="split", ctx=ast.Load()), args=[v.args[0]], keywords=[])
                    return ast.fix_missing_locations(ast.copy_location(ast.Subscript(value=call, slice=ast.Constant(value=0) if first else ast.UnaryOp(op=ast.USub(), operand=ast.Constant(value=1)), ctx=node.ctx), node))
            return node

    return T().visit(e)


def canon_collections(e: ast.AST) -> ast.AST:
    """One spelling for 'the elements of': `set(x)`, `frozenset(x)`, `list(x)`, `tuple(x)`, `sorted(x)` with a single
    argument are x, and `x.keys()` is x.  For rules that ask *which elements* are computed / iterated, not in which
    container type or order."""

    class T(ast.NodeTransformer):
        def visit_Call(self, node):
            self.generic_visit(node)
            if isinstance(node.func, ast.Name) and node.func.id in ("set", "frozenset", "list", "tuple", "sorted") and len(node.args) == 1 and not node.keywords and not isinstance(node.args[0], ast.Starred):
                return node.args[0]
            if isinstance(node.func, ast.Attribute) and node.func.attr == "keys" and not node.args and not node.keywords:
                return node.func.value
            return node

    return T().visit(copy.deepcopy(e))


def single_defs(func: ast.AST) -> Dict[str, ast.AST]:
    """local name -> defining expression, for locals bound exactly once in the function by a plain assignment
    (`x = e`, `x: T = e`, `(x := e)`); parameters, loop / with / except / unpacking targets are never expanded."""
    params = set()
    a = getattr(func, "args", None)
    if a is not None:
        params = {x.arg for x in a.posonlyargs + a.args + a.kwonlyargs}
        if a.vararg:
            params.add(a.vararg.arg)
        if a.kwarg:
            params.add(a.kwarg.arg)
    count: Dict[str, int] = {}
    defs: Dict[str, ast.AST] = {}

    def bind(name: str, val: Optional[ast.AST]):
        count[name] = count.get(name, 0) + 1
        if val is not None:
            defs[name] = val

    for n in walk_local(func):
        if n is func:
            continue
        if isinstance(n, ast.Assign):
            for t in n.targets:
                if isinstance(t, ast.Name):
                    bind(t.id, n.value if len(n.targets) == 1 else None)
                elif isinstance(t, ast.Tuple) and isinstance(n.value, ast.Tuple) and len(t.elts) == len(n.value.elts) and len(n.targets) == 1 and all(isinstance(x, ast.Name) for x in t.elts):
                    # `a, b = (x, y)`: element-wise definitions (unless a right side reads a left name)
                    lhs = {x.id for x in t.elts}
                    reads = {x.id for v in n.value.elts for x in ast.walk(v) if isinstance(x, ast.Name)}
                    for x, v in zip(t.elts, n.value.elts):
                        bind(x.id, v if not (lhs & reads) else None)
                elif isinstance(t, ast.Tuple) and len(n.targets) == 1 and all(isinstance(x, ast.Name) for x in t.elts) and is_plain_path(n.value) and not ({x.id for x in t.elts} & {x.id for x in ast.walk(n.value) if isinstance(x, ast.Name)}):
                    # `a, b, c = seq` (seq a plain name / attribute path): a is seq[0], ...
                    for k_, x in enumerate(t.elts):
                        bind(x.id, ast.copy_location(ast.Subscript(value=copy.deepcopy(n.value), slice=ast.Constant(value=k_), ctx=ast.Load()), n.value))
                else:
                    for x in ast.walk(t):
                        if isinstance(x, ast.Name) and isinstance(x.ctx, ast.Store):
                            bind(x.id, None)
        elif isinstance(n, ast.AnnAssign):
            if isinstance(n.target, ast.Name) and n.value is not None:
                bind(n.target.id, n.value)
        elif isinstance(n, ast.AugAssign):
            if isinstance(n.target, ast.Name):
                bind(n.target.id, None)
                bind(n.target.id, None)
        elif isinstance(n, ast.NamedExpr):
            bind(n.target.id, n.value)
        elif isinstance(n, (ast.For, ast.AsyncFor)):
            for x in ast.walk(n.target):
                if isinstance(x, ast.Name):
                    bind(x.id, None)
        elif isinstance(n, (ast.With, ast.AsyncWith)):
            for i in n.items:
                if i.optional_vars is not None:
                    for x in ast.walk(i.optional_vars):
                        if isinstance(x, ast.Name):
                            bind(x.id, None)
        elif isinstance(n, ast.ExceptHandler):
            if n.name:
                bind(n.name, None)
        elif isinstance(n, (ast.Import, ast.ImportFrom)):
            for al in n.names:
                bind((al.asname or al.name).split(".")[0], None)
        elif isinstance(n, (ast.Global, ast.Nonlocal)):
            for nm in n.names:
                bind(nm, None)
                bind(nm, None)
        elif isinstance(n, ast.Delete):
            for t in n.targets:
                if isinstance(t, ast.Name):
                    bind(t.id, None)
                    bind(t.id, None)
    mutated: set = set()
    for n in walk_local(func):
        if isinstance(n, ast.Attribute) and isinstance(n.ctx, (ast.Store, ast.Del)) and isinstance(n.value, ast.Name):
            mutated.add(n.value.id)  # `x.a = v`: an object under construction, the name stands for its identity
    mutated |= _returned_and_written(func)
    return {k: v for k, v in defs.items() if count.get(k) == 1 and k not in params and k not in mutated and not _is_fresh_container(v, func, k)}


def used_as_object(func: ast.AST, name: str) -> bool:
    """the local is updated in place somewhere (method call on it, item/attribute store or delete, augmented assignment)"""
    cache = getattr(func, "_mdsa_objnames", None)
    if cache is None:
        cache = set()
        for n in walk_local(func):
            if isinstance(n, ast.Call) and isinstance(n.func, ast.Attribute) and isinstance(n.func.value, ast.Name):
                cache.add(n.func.value.id)
            elif isinstance(n, (ast.Subscript, ast.Attribute)) and isinstance(n.ctx, (ast.Store, ast.Del)) and isinstance(n.value, ast.Name):
                cache.add(n.value.id)
            elif isinstance(n, ast.AugAssign) and isinstance(n.target, ast.Name):
                cache.add(n.target.id)
        try:
            func._mdsa_objnames = cache
        except AttributeError:
            pass
    return name in cache


def _is_fresh_container(v: ast.AST, func: Optional[ast.AST] = None, name: Optional[str] = None) -> bool:
    """`x = {}` / `[]` / `set()` ...: an accumulator that is mutated afterwards, not a name for a value.
    A non-empty literal whose name is only ever read (`fields = {"a": 1}; f(update=fields)`) is a plain value."""
    if isinstance(v, (ast.Dict, ast.List, ast.Set)):
        nonempty = bool(v.keys) if isinstance(v, ast.Dict) else bool(v.elts)
        if nonempty and func is not None and name is not None and not used_as_object(func, name):
            return False
        return True
    return isinstance(v, ast.Call) and isinstance(v.func, ast.Name) and v.func.id in ("dict", "list", "set", "OrderedDict", "defaultdict") and not v.args


def cached_defs(func: ast.AST) -> Dict[str, ast.AST]:
    """single_defs(func), memoised *on the node object* (an id()-keyed table would hand stale entries to new nodes
    that happen to reuse the address of a collected one)"""
    d = getattr(func, "_mdsa_single_defs", None)
    if d is None:
        d = single_defs(func)
        try:
            func._mdsa_single_defs = d
        except AttributeError:
            pass
    return d



def expand(func: ast.AST, e: ast.AST, depth: int = 6) -> ast.AST:
    """e with every single-definition local replaced (recursively) by its defining expression."""
    import copy

    defs = cached_defs(func)
    r = _Subst(defs, depth).visit(copy.deepcopy(e)) if defs else copy.deepcopy(e)
    return ast.fix_missing_locations(canon_idioms(r))


def xmatch(func: ast.AST, p, e: ast.AST) -> Optional[Binds]:
    """match on the expression as written, else on its local-expanded form."""
    b = match(p, e)
    if b is not None:
        return b
    return match(p, expand(func, e))


def xtext(func: ast.AST, e: ast.AST) -> str:
    return _txt(expand(func, e))


# ---------------------------------------------------------------------------------------------- condition atoms
def find_tests(g, func: ast.AST, pattern, binds: Optional[Binds] = None, expander=None) -> List[Tuple[int, str]]:
    """Test nodes of CFG g whose atom matches `pattern` (positive or negative as written), as
    (node index, out-edge label on which the pattern holds)."""
    p = pat(pattern) if isinstance(pattern, str) else pattern
    patom, pneg = polarity(p)
    if _is_meta(patom) is not None:
        raise ValueError(f"condition pattern {pattern!r} is a bare metavariable: it would match every test")
    out = []
    for n in g.nodes:
        if n.kind != "test":
            continue
        b = match(patom, n.exprs[0], binds)
        if b is None:
            ex = expander(n.idx, n.exprs[0]) if expander is not None else expand(func, n.exprs[0])
            a2, n2 = polarity(ex)
            b = match(patom, a2, binds)
            if b is None:
                continue
            lab = "T" if not (pneg != n2) else "F"
        else:
            lab = "F" if pneg else "T"
        out.append((n.idx, lab))
    return out


def test_holds_label(g, func, node_idx: int, pattern) -> Optional[str]:
    for i, lab in find_tests(g, func, pattern):
        if i == node_idx:
            return lab
    return None


# ---------------------------------------------------------------------------------------------- boolean structure
def formula(e: ast.AST, func: Optional[ast.AST] = None):
    """Boolean skeleton of a condition over polarity-normalised atoms:
    ('and', [f..]) | ('or', [f..]) | ('not', f) | ('atom', text) | ('const', bool)"""
    if isinstance(e, ast.BoolOp):
        return ("and" if isinstance(e.op, ast.And) else "or", [formula(v, func) for v in e.values])
    if isinstance(e, ast.UnaryOp) and isinstance(e.op, ast.Not) and isinstance(e.operand, (ast.BoolOp, ast.UnaryOp)):
        return ("not", formula(e.operand, func))
    if isinstance(e, ast.NamedExpr):
        return formula(e.value, func)
    if func is not None and isinstance(e, ast.Name):
        ex = expand(func, e)
        if not isinstance(ex, ast.Name):
            return formula(ex, func)
    a, neg = polarity(e)
    if isinstance(a, ast.Constant) and isinstance(a.value, bool):
        return ("const", a.value != neg)
    if isinstance(a, (ast.BoolOp,)) or (isinstance(a, ast.UnaryOp) and isinstance(a.op, ast.Not)):
        f = formula(a, func)
    else:
        f = ("atom", _txt(expand(func, a)) if func is not None else _txt(a))
    return ("not", f) if neg else f


def _atoms(f, acc):
    if f[0] == "atom":
        if f[1] not in acc:
            acc.append(f[1])
    elif f[0] in ("and", "or"):
        for x in f[1]:
            _atoms(x, acc)
    elif f[0] == "not":
        _atoms(f[1], acc)
    return acc


def _ev(f, env) -> bool:
    if f[0] == "atom":
        return env[f[1]]
    if f[0] == "const":
        return f[1]
    if f[0] == "not":
        return not _ev(f[1], env)
    if f[0] == "and":
        return all(_ev(x, env) for x in f[1])
    return any(_ev(x, env) for x in f[1])


def equivalent(e1, e2, func1: Optional[ast.AST] = None, func2: Optional[ast.AST] = None, rename: Optional[Dict[str, str]] = None) -> bool:
    """Propositional equivalence of two conditions over their (textually identified) atoms."""
    import itertools

    f1 = formula(pat(e1) if isinstance(e1, str) else e1, func1)
    f2 = formula(pat(e2) if isinstance(e2, str) else e2, func2)
    atoms = _atoms(f2, _atoms(f1, []))
    if len(atoms) > 10:
        return False
    for vals in itertools.product((False, True), repeat=len(atoms)):
        env = dict(zip(atoms, vals))
        if _ev(f1, env) != _ev(f2, env):
            return False
    return True


def conjuncts(e: ast.AST) -> List[ast.AST]:
    if isinstance(e, ast.BoolOp) and isinstance(e.op, ast.And):
        out: List[ast.AST] = []
        for v in e.values:
            out += conjuncts(v)
        return out
    return [e]


def equivalent_ifexp(e: ast.AST, var: str, none_val: str, some_val: str) -> bool:
    """e is `<none_val> if <var> is None else <some_val>` in either orientation"""
    if not isinstance(e, ast.IfExp):
        return False
    atom, neg = polarity(e.test)
    if _txt(atom) != f"{var} is None":
        return False
    a, b = (_txt(e.body), _txt(e.orelse)) if not neg else (_txt(e.orelse), _txt(e.body))
    return a == none_val and b == some_val


def _returned_and_written(func: ast.AST) -> set:
    """names that are returned by the function and written through at any depth (`ret.__dict__[k] = v; return ret`):
    results under construction"""
    returned = {n.value.id for n in walk_local(func) if isinstance(n, ast.Return) and isinstance(n.value, ast.Name)}
    # `m = r.__dict__` / `m = r.items`: a write through m is a write through r
    part_of: Dict[str, str] = {}
    for n in walk_local(func):
        if isinstance(n, (ast.Assign, ast.AnnAssign)) and n.value is not None:
            tg = n.targets[0] if isinstance(n, ast.Assign) and len(n.targets) == 1 else n.target if isinstance(n, ast.AnnAssign) else None
            b = n.value
            if isinstance(tg, ast.Name) and isinstance(b, (ast.Attribute, ast.Subscript)):
                while isinstance(b, (ast.Attribute, ast.Subscript)):
                    b = b.value
                if isinstance(b, ast.Name):
                    part_of[tg.id] = b.id
    out = set()
    for n in walk_local(func):
        if isinstance(n, (ast.Attribute, ast.Subscript)) and isinstance(n.ctx, (ast.Store, ast.Del)):
            b = n.value
            while isinstance(b, (ast.Attribute, ast.Subscript)):
                b = b.value
            if isinstance(b, ast.Name):
                root, hops = b.id, 0
                while root in part_of and hops < 4:
                    root, hops = part_of[root], hops + 1
                if root in returned:
                    out.add(root)
    return out
