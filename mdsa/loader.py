"""Loader: parses every module of metador_core, builds module / class / function tables,
import maps and folded module-level constants.  Nothing from the repo is imported or run.

Qualified names are relative to the package: "ih5.overlay.IH5Group.create_group".
"""
from __future__ import annotations

import ast
import os
from pathlib import Path
from typing import Dict, Iterator, List, Optional, Tuple

PKG = "metador_core"
DEFAULT_SRC = "/repo/src/metador_core"


class AnalysisError(Exception):
    """The analysis cannot be carried out (missing anchor, unknown shape, crash) -> exit 2."""


class FuncInfo:
    def __init__(self, qual, module, cls, node, parent=None):
        self.qual: str = qual
        self.module: "Module" = module
        self.cls: Optional["ClassInfo"] = cls
        self.node: ast.AST = node  # FunctionDef / AsyncFunctionDef / Lambda
        self.parent: Optional["FuncInfo"] = parent  # enclosing function for nested defs
        self.nested: Dict[str, "FuncInfo"] = {}

    @property
    def name(self) -> str:
        return self.qual.rsplit(".", 1)[-1]

    @property
    def params(self) -> List[str]:
        a = self.node.args
        return [x.arg for x in a.posonlyargs + a.args + a.kwonlyargs] + (
            [a.vararg.arg] if a.vararg else []
        ) + ([a.kwarg.arg] if a.kwarg else [])

    def loc(self, node=None) -> str:
        n = node if node is not None else self.node
        return f"{self.module.relpath}:{getattr(n, 'lineno', '?')}"

    def __repr__(self):
        return f"<func {self.qual}>"


class ClassInfo:
    def __init__(self, qual, module, node):
        self.qual: str = qual
        self.module: "Module" = module
        self.node: ast.ClassDef = node
        self.methods: Dict[str, FuncInfo] = {}
        self.attrs: Dict[str, ast.AST] = {}  # class-level "name = expr"
        self.annots: Dict[str, ast.AST] = {}  # class-level "name: T [= expr]"
        self.base_exprs: List[ast.AST] = list(node.bases)
        self.bases: List[str] = []  # resolved: repo qual or "ext:<dotted>"
        self.inner: Dict[str, "ClassInfo"] = {}
        self.keywords = {k.arg: k.value for k in node.keywords if k.arg}

    @property
    def name(self) -> str:
        return self.qual.rsplit(".", 1)[-1]

    def __repr__(self):
        return f"<class {self.qual}>"


class Module:
    def __init__(self, name, path, relpath, source, tree):
        self.name: str = name  # "ih5.overlay" ("" for the package __init__)
        self.path: Path = path
        self.relpath: str = relpath  # "src/metador_core/ih5/overlay.py"
        self.source: str = source
        self.tree: ast.Module = tree
        self.is_pkg = path.name == "__init__.py"
        self.imports: Dict[str, str] = {}  # local name -> "repo:<qual>" | "ext:<dotted>"
        self.functions: Dict[str, FuncInfo] = {}
        self.classes: Dict[str, ClassInfo] = {}
        self.consts: Dict[str, object] = {}
        self.assigns: Dict[str, ast.AST] = {}


def dotted(node: ast.AST) -> Optional[str]:
    """a.b.c -> "a.b.c" for pure Name/Attribute chains."""
    parts = []
    while isinstance(node, ast.Attribute):
        parts.append(node.attr)
        node = node.value
    if isinstance(node, ast.Name):
        parts.append(node.id)
        return ".".join(reversed(parts))
    return None


class Program:
    def __init__(self, src: Optional[str] = None, overlay: Optional[Dict[str, str]] = None):
        """src: directory of the metador_core package; overlay: {path relative to src: source}
        replaces file contents in memory (used by the checker self-test, no scratch copies)."""
        self.src = Path(src or os.environ.get("MDSA_SRC") or DEFAULT_SRC)
        self.overlay = overlay or {}
        self.modules: Dict[str, Module] = {}
        self.functions: Dict[str, FuncInfo] = {}
        self.classes: Dict[str, ClassInfo] = {}
        self._subclasses: Dict[str, List[str]] = {}
        self._load()

    # ------------------------------------------------------------------ loading
    def _load(self):
        if not self.src.is_dir():
            raise AnalysisError(f"source directory not found: {self.src}")
        files = sorted(self.src.rglob("*.py"))
        if len(files) < 40:
            raise AnalysisError(f"only {len(files)} python files under {self.src}; expected the whole package")
        for f in files:
            rel = f.relative_to(self.src).as_posix()
            source = self.overlay.get(rel)
            if source is None:
                source = f.read_text(encoding="utf-8")
            try:
                tree = ast.parse(source, filename=str(f))
            except SyntaxError as e:
                raise AnalysisError(f"{rel}: does not parse: {e}")
            parts = list(f.relative_to(self.src).with_suffix("").parts)
            if parts[-1] == "__init__":
                parts = parts[:-1]
            name = ".".join(parts)
            m = Module(name, f, f"src/{PKG}/{rel}", source, tree)
            self.modules[name] = m
        for rel in self.overlay:
            if not (self.src / rel).exists():
                raise AnalysisError(f"overlay for unknown file {rel}")
        for m in self.modules.values():
            self._index_module(m)
        for m in self.modules.values():
            self._resolve_imports(m)
        for c in self.classes.values():
            c.bases = [self._resolve_expr_name(c.module, b) for b in c.base_exprs]
            for b in c.bases:
                self._subclasses.setdefault(b, []).append(c.qual)
        for m in self.modules.values():
            self._fold_consts(m)
        # extract-method normal form: unknown private helpers are analysed through (see mdsa/inline.py)
        from . import inline, outline, sigform

        self.sigform_log: List[str] = sigform.apply(self) if not os.environ.get("MDSA_NO_INLINE") and not os.environ.get("MDSA_PINNED_GEN") else []
        self.outline_log: List[str] = outline.apply(self) if not os.environ.get("MDSA_NO_INLINE") else []
        self.inline_log: List[str] = inline.apply(self) if not os.environ.get("MDSA_NO_INLINE") else []
        self.signatures = self._signatures()
        self.activate()

    def activate(self):
        """make this program's tables the ones the pattern matcher consults"""
        from . import match

        match.SIGNATURES = self.signatures

    def _signatures(self) -> Dict[str, List[str]]:
        sigs: Dict[str, Optional[List[str]]] = {}
        for fi in self.functions.values():
            if isinstance(fi.node, ast.Lambda):
                continue
            a = fi.node.args
            ps = [x.arg for x in a.posonlyargs + a.args]
            decos = {d.id for d in fi.node.decorator_list if isinstance(d, ast.Name)}
            if fi.cls is not None and fi.parent is None and "staticmethod" not in decos and ps:
                ps = ps[1:]
            if a.vararg is not None:
                ps = None
            nm = fi.name
            if nm in sigs and sigs[nm] != ps:
                sigs[nm] = None
            elif nm not in sigs:
                sigs[nm] = ps
        return {k: v for k, v in sigs.items() if v}

    def _index_module(self, m: Module):
        def index_func(node, prefix, cls, parent):
            qual = f"{prefix}.{node.name}" if prefix else node.name
            fi = FuncInfo(qual, m, cls, node, parent)
            self.functions[qual] = fi
            for sub in _iter_defs(node.body):
                if isinstance(sub, (ast.FunctionDef, ast.AsyncFunctionDef)):
                    fi.nested[sub.name] = index_func(sub, qual + ".<locals>", cls, fi)
                elif isinstance(sub, ast.ClassDef):
                    index_class(sub, qual + ".<locals>")
            return fi

        def index_class(node, prefix):
            qual = f"{prefix}.{node.name}" if prefix else node.name
            ci = ClassInfo(qual, m, node)
            self.classes[qual] = ci
            for st in node.body:
                if isinstance(st, (ast.FunctionDef, ast.AsyncFunctionDef)):
                    ci.methods[st.name] = index_func(st, qual, ci, None)
                elif isinstance(st, ast.ClassDef):
                    ci.inner[st.name] = index_class(st, qual)
                elif isinstance(st, ast.Assign):
                    for t in st.targets:
                        if isinstance(t, ast.Name):
                            ci.attrs[t.id] = st.value
                elif isinstance(st, ast.AnnAssign) and isinstance(st.target, ast.Name):
                    ci.annots[st.target.id] = st.annotation
                    if st.value is not None:
                        ci.attrs[st.target.id] = st.value
            return ci

        for st in _iter_defs(m.tree.body):
            if isinstance(st, (ast.FunctionDef, ast.AsyncFunctionDef)):
                m.functions[st.name] = index_func(st, m.name, None, None)
            elif isinstance(st, ast.ClassDef):
                m.classes[st.name] = index_class(st, m.name)
        for st in _iter_toplevel(m.tree.body):
            if isinstance(st, ast.Assign):
                for t in st.targets:
                    if isinstance(t, ast.Name):
                        m.assigns[t.id] = st.value
            elif isinstance(st, ast.AnnAssign) and isinstance(st.target, ast.Name) and st.value is not None:
                m.assigns[st.target.id] = st.value

    def _resolve_imports(self, m: Module):
        pkgparts = m.name.split(".") if m.name else []
        if not m.is_pkg:
            pkgparts = pkgparts[:-1]
        for st in ast.walk(m.tree):
            if isinstance(st, ast.Import):
                for a in st.names:
                    local = a.asname or a.name.split(".")[0]
                    full = a.name if a.asname else a.name.split(".")[0]
                    m.imports.setdefault(local, self._classify(full))
            elif isinstance(st, ast.ImportFrom):
                if st.level:
                    base = pkgparts[: len(pkgparts) - (st.level - 1)]
                    modname = ".".join(base + (st.module.split(".") if st.module else []))
                    prefix = "repo:"
                else:
                    modname = st.module or ""
                    if modname == PKG or modname.startswith(PKG + "."):
                        modname = modname[len(PKG) + 1 :]
                        prefix = "repo:"
                    else:
                        prefix = "ext:"
                for a in st.names:
                    local = a.asname or a.name
                    if prefix == "repo:":
                        target = f"{modname}.{a.name}" if modname else a.name
                        m.imports.setdefault(local, "repo:" + target)
                    else:
                        m.imports.setdefault(local, f"ext:{modname}.{a.name}")

    def _classify(self, full: str) -> str:
        if full == PKG or full.startswith(PKG + "."):
            return "repo:" + full[len(PKG) + 1 :]
        return "ext:" + full

    # ------------------------------------------------------------------ name resolution
    def canonical(self, ref: str, _depth=0) -> str:
        """Follow re-exports: "repo:container.MetadorContainer" -> "repo:container.wrappers.MetadorContainer"."""
        if not ref.startswith("repo:") or _depth > 8:
            return ref
        q = ref[5:]
        if q in self.classes or q in self.functions or q in self.modules:
            return ref
        if "." in q:
            modname, name = q.rsplit(".", 1)
        else:
            modname, name = "", q
        mod = self.modules.get(modname)
        if mod is not None:
            if name in mod.imports:
                return self.canonical(mod.imports[name], _depth + 1)
            if name in mod.assigns:
                return "repo:" + q
        return ref

    def resolve_name(self, m: Module, name: str) -> Optional[str]:
        """Resolve a (possibly dotted) name used in module m to "repo:<qual>" / "ext:<dotted>"."""
        head, _, rest = name.partition(".")
        if head in m.classes:
            ref = "repo:" + m.classes[head].qual
        elif head in m.functions:
            ref = "repo:" + m.functions[head].qual
        elif head in m.imports:
            ref = self.canonical(m.imports[head])
        elif head in m.assigns:
            ref = "repo:" + (f"{m.name}.{head}" if m.name else head)
        else:
            return None
        while rest:
            seg, _, rest = rest.partition(".")
            if ref.startswith("repo:"):
                ref = self.canonical(ref + "." + seg)
            else:
                ref = ref + "." + seg
        return ref

    def _resolve_expr_name(self, m: Module, expr: ast.AST) -> str:
        if isinstance(expr, ast.Subscript):  # Generic[T]
            expr = expr.value
        d = dotted(expr)
        if d is None:
            return "ext:?" + ast.unparse(expr)
        r = self.resolve_name(m, d)
        if r is None:
            return "ext:" + d
        return r[5:] if r.startswith("repo:") and r[5:] in self.classes else r

    # ------------------------------------------------------------------ accessors
    def func(self, qual: str) -> FuncInfo:
        f = self.functions.get(qual)
        if f is None:
            raise AnalysisError(f"anchor function not found: {qual}")
        return f

    def cls(self, qual: str) -> ClassInfo:
        c = self.classes.get(qual)
        if c is None:
            raise AnalysisError(f"anchor class not found: {qual}")
        return c

    def module(self, name: str) -> Module:
        m = self.modules.get(name)
        if m is None:
            raise AnalysisError(f"anchor module not found: {name}")
        return m

    def mro(self, cq: str) -> List[str]:
        """C3 linearisation restricted to repo classes; external bases appear as "ext:..." leaves."""
        seen: Dict[str, List[str]] = {}

        def lin(q):
            if q in seen:
                return seen[q]
            c = self.classes.get(q)
            if c is None:
                seen[q] = [q]
                return seen[q]
            seqs = [list(lin(b)) for b in c.bases] + [list(c.bases)]
            res = [q]
            while any(seqs):
                for s in seqs:
                    if not s:
                        continue
                    cand = s[0]
                    if not any(cand in t[1:] for t in seqs):
                        break
                else:
                    raise AnalysisError(f"inconsistent MRO for {q}")
                res.append(cand)
                for s in seqs:
                    if s and s[0] == cand:
                        del s[0]
            seen[q] = res
            return res

        return lin(cq)

    def lookup_method(self, cq: str, name: str, after: Optional[str] = None) -> Optional[Tuple[str, object]]:
        """Find attribute `name` through the MRO of class cq. Returns (defining class, FuncInfo | ast expr).
        If `after` is given, start after that class in the MRO (super())."""
        mro = self.mro(cq)
        if after is not None:
            if after not in mro:
                return None
            mro = mro[mro.index(after) + 1 :]
        for q in mro:
            c = self.classes.get(q)
            if c is None:
                continue
            if name in c.methods:
                return q, c.methods[name]
            if name in c.attrs:
                return q, c.attrs[name]
        return None

    def subclasses(self, cq: str, transitive=True) -> List[str]:
        out, todo = [], list(self._subclasses.get(cq, []))
        while todo:
            q = todo.pop()
            if q in out:
                continue
            out.append(q)
            if transitive:
                todo += self._subclasses.get(q, [])
        return out

    def is_subclass(self, cq: str, base: str) -> bool:
        return base in self.mro(cq)

    def const(self, modname: str, name: str):
        m = self.module(modname)
        if name not in m.consts:
            raise AnalysisError(f"constant {modname}.{name} not found or not foldable")
        return m.consts[name]

    # ------------------------------------------------------------------ constant folding
    def _fold_consts(self, m: Module):
        for name, expr in m.assigns.items():
            try:
                m.consts[name] = self.fold(expr, m)
            except _NoFold:
                pass

    def fold(self, expr: ast.AST, m: Module, env: Optional[Dict[str, object]] = None, _depth=0):
        """Fold str/int/tuple/list constants, f-strings, + concatenation, names of other constants."""
        if _depth > 20:
            raise _NoFold()
        env = env or {}
        if isinstance(expr, ast.Constant):
            return expr.value
        if isinstance(expr, ast.JoinedStr):
            out = ""
            for v in expr.values:
                if isinstance(v, ast.Constant):
                    out += str(v.value)
                elif isinstance(v, ast.FormattedValue) and v.format_spec is None and v.conversion == -1:
                    out += str(self.fold(v.value, m, env, _depth + 1))
                else:
                    raise _NoFold()
            return out
        if isinstance(expr, ast.BinOp) and isinstance(expr.op, ast.Add):
            a, b = self.fold(expr.left, m, env, _depth + 1), self.fold(expr.right, m, env, _depth + 1)
            if type(a) is type(b) and isinstance(a, (str, int, tuple, list)):
                return a + b
            raise _NoFold()
        if isinstance(expr, (ast.Tuple, ast.List, ast.Set)):
            vals = [self.fold(e, m, env, _depth + 1) for e in expr.elts]
            return tuple(vals) if isinstance(expr, ast.Tuple) else (set(vals) if isinstance(expr, ast.Set) else vals)
        if isinstance(expr, ast.Name):
            if expr.id in env:
                return env[expr.id]
            if expr.id in m.assigns:
                return self.fold(m.assigns[expr.id], m, env, _depth + 1)
            ref = m.imports.get(expr.id)
            if ref and ref.startswith("repo:"):
                return self._fold_ref(self.canonical(ref), _depth)
            raise _NoFold()
        if isinstance(expr, ast.Attribute):
            d = dotted(expr)
            if d:
                ref = self.resolve_name(m, d)
                if ref and ref.startswith("repo:"):
                    return self._fold_ref(ref, _depth)
            raise _NoFold()
        if isinstance(expr, ast.Subscript) and dotted(expr.value) in ("Final", "typing.Final"):
            raise _NoFold()
        raise _NoFold()

    def _fold_ref(self, ref: str, _depth):
        q = ref[5:]
        modname, _, name = q.rpartition(".")
        mod = self.modules.get(modname)
        if mod is not None and name in mod.assigns:
            return self.fold(mod.assigns[name], mod, None, _depth + 1)
        # class attribute constant: mod.Class.NAME
        cq, _, attr = q.rpartition(".")
        c = self.classes.get(cq)
        if c is not None and attr in c.attrs:
            return self.fold(c.attrs[attr], c.module, None, _depth + 1)
        raise _NoFold()

    def fold_in_class(self, c: ClassInfo, expr: ast.AST, cls_names=("cls", "self")):
        """Fold an expression inside a method of class c: cls.X / self.X refer to class attributes."""

        class _T(ast.NodeTransformer):
            def visit_Attribute(s, node):
                if isinstance(node.value, ast.Name) and node.value.id in cls_names:
                    hit = self.lookup_method(c.qual, node.attr)
                    if hit and isinstance(hit[1], ast.AST):
                        return hit[1]
                return s.generic_visit(node)

        import copy

        e2 = _T().visit(copy.deepcopy(expr))
        return self.fold(e2, c.module)

    def stats(self) -> Dict[str, int]:
        return {
            "modules": len(self.modules),
            "classes": len(self.classes),
            "functions": len(self.functions),
        }


class _NoFold(Exception):
    pass


NoFold = _NoFold


def _iter_defs(body) -> Iterator[ast.AST]:
    """Definitions in a body, looking through if/try/with at the same level (TYPE_CHECKING blocks…)."""
    for st in body:
        if isinstance(st, (ast.FunctionDef, ast.AsyncFunctionDef, ast.ClassDef)):
            yield st
        elif isinstance(st, ast.If):
            yield from _iter_defs(st.body)
            yield from _iter_defs(st.orelse)
        elif isinstance(st, ast.Try):
            yield from _iter_defs(st.body)
            yield from _iter_defs(st.orelse)
            yield from _iter_defs(st.finalbody)
            for h in st.handlers:
                yield from _iter_defs(h.body)
        elif isinstance(st, (ast.With, ast.For, ast.While)):
            yield from _iter_defs(st.body)


def _iter_toplevel(body) -> Iterator[ast.AST]:
    for st in body:
        yield st
        if isinstance(st, ast.If):
            yield from _iter_toplevel(st.body)
            yield from _iter_toplevel(st.orelse)
        elif isinstance(st, ast.Try):
            yield from _iter_toplevel(st.body)
