"""Small AST helpers shared by the rules."""
from __future__ import annotations

import ast
from typing import Iterator, List, Optional, Tuple

from .cfg import walk_local


def norm(node: ast.AST) -> str:
    """Normalised source text of a construct (used in finding keys; independent of layout)."""
    if node is None:
        return ""
    try:
        return " ".join(ast.unparse(node).split())
    except Exception:
        return ast.dump(node)


def head_line(node: ast.AST) -> str:
    """First line of a (possibly compound) statement."""
    if isinstance(node, (ast.If, ast.While)):
        return ("if " if isinstance(node, ast.If) else "while ") + norm(node.test)
    if isinstance(node, (ast.For, ast.AsyncFor)):
        return f"for {norm(node.target)} in {norm(node.iter)}"
    if isinstance(node, (ast.FunctionDef, ast.AsyncFunctionDef)):
        return f"def {node.name}"
    return norm(node)


def call_attr(call: ast.Call) -> Optional[str]:
    """Method/function name of a call: f() -> 'f', a.b.m() -> 'm'."""
    f = call.func
    if isinstance(f, ast.Name):
        return f.id
    if isinstance(f, ast.Attribute):
        return f.attr
    return None


def call_recv(call: ast.Call) -> Optional[ast.AST]:
    return call.func.value if isinstance(call.func, ast.Attribute) else None


def chain(node: ast.AST) -> Optional[List[Tuple[str, object]]]:
    """Access path of an expression: self._files[-1][p].attrs[k] ->
    [('name','self'),('attr','_files'),('sub',<ast>),('sub',<ast>),('attr','attrs'),('sub',<ast>)].
    Calls appear as ('call', <ast.Call>).  None if the root is not a Name."""
    parts: List[Tuple[str, object]] = []
    while True:
        if isinstance(node, ast.Attribute):
            parts.append(("attr", node.attr))
            node = node.value
        elif isinstance(node, ast.Subscript):
            parts.append(("sub", node.slice))
            node = node.value
        elif isinstance(node, ast.Call):
            parts.append(("call", node))
            node = node.func
        elif isinstance(node, ast.Name):
            parts.append(("name", node.id))
            return list(reversed(parts))
        else:
            return None


def is_neg_one(e: ast.AST) -> bool:
    return (
        isinstance(e, ast.UnaryOp)
        and isinstance(e.op, ast.USub)
        and isinstance(e.operand, ast.Constant)
        and e.operand.value == 1
    )


def const_int(e: ast.AST) -> Optional[int]:
    if isinstance(e, ast.Constant) and isinstance(e.value, int) and not isinstance(e.value, bool):
        return e.value
    if isinstance(e, ast.UnaryOp) and isinstance(e.op, ast.USub) and isinstance(e.operand, ast.Constant) and isinstance(e.operand.value, int):
        return -e.operand.value
    return None


def store_targets(st: ast.AST) -> Iterator[Tuple[str, ast.AST]]:
    """('store'|'del'|'aug', target expr) for every target a statement writes."""
    if isinstance(st, ast.Assign):
        for t in st.targets:
            yield from _flat("store", t)
    elif isinstance(st, ast.AnnAssign):
        if st.value is not None:
            yield from _flat("store", st.target)
    elif isinstance(st, ast.AugAssign):
        yield ("aug", st.target)
    elif isinstance(st, ast.Delete):
        for t in st.targets:
            yield from _flat("del", t)
    elif isinstance(st, (ast.For, ast.AsyncFor)):
        yield from _flat("store", st.target)
    elif isinstance(st, (ast.With, ast.AsyncWith)):
        for i in st.items:
            if i.optional_vars is not None:
                yield from _flat("store", i.optional_vars)
    for x in walk_local(st) if isinstance(st, ast.AST) else ():
        if isinstance(x, ast.NamedExpr):
            yield ("store", x.target)


def _flat(kind, t):
    if isinstance(t, (ast.Tuple, ast.List)):
        for e in t.elts:
            yield from _flat(kind, e)
    elif isinstance(t, ast.Starred):
        yield from _flat(kind, t.value)
    else:
        yield (kind, t)


def local_calls(node: ast.AST) -> List[ast.Call]:
    return [x for x in walk_local(node) if isinstance(x, ast.Call)]


def names_in(node: ast.AST) -> set:
    return {x.id for x in ast.walk(node) if isinstance(x, ast.Name)}


def kwarg(call: ast.Call, name: str) -> Optional[ast.AST]:
    for k in call.keywords:
        if k.arg == name:
            return k.value
    return None


def arg_or_kw(call: ast.Call, pos: int, name: str) -> Optional[ast.AST]:
    if len(call.args) > pos and not any(isinstance(a, ast.Starred) for a in call.args[: pos + 1]):
        return call.args[pos]
    return kwarg(call, name)


def statements(func: ast.AST) -> Iterator[ast.stmt]:
    """All statements of a function body, recursively, excluding nested function/class bodies."""
    for x in walk_local(func):
        if isinstance(x, ast.stmt) and x is not func:
            yield x


def always_raises(func_node: ast.AST) -> bool:
    """The function has no normal exit at all (every path ends in raise)."""
    from .cfg import CFG

    g = CFG(func_node)
    return g.exit not in g.reach([g.entry])
