"""Statement-level control-flow graph for one function body + path queries.

Node kinds: entry, exit (normal return / fall off the end), raise (abnormal exit),
stmt (simple statement), test (one atomic, polarity-normalised part of an if/while condition; the
short-circuit structure of and/or/not is expressed by edges), loop (while head), for (iterator step), with, try,
except (handler entry), def (nested function/class definition).

Queries are phrased as reachability with a set of nodes removed, which directly encodes
  DOM   "every path from entry to E passes a node of G"   == E unreachable when G is removed
  MUST  "every path to the normal exit passes a node of N" == exit unreachable when N is removed
  ORDER "no path reaches B before A"                       == B unreachable when A is removed
"""
from __future__ import annotations

import ast
from typing import Callable, Dict, Iterable, Iterator, List, Optional, Sequence, Set, Tuple


class Node:
    __slots__ = ("idx", "kind", "stmt", "exprs", "label", "raw", "neg")

    def __init__(self, idx, kind, stmt=None, exprs=(), label=""):
        self.idx = idx
        self.kind = kind
        self.stmt = stmt  # the ast statement this node came from (may be compound)
        self.exprs: Tuple[ast.AST, ...] = tuple(exprs)  # what is evaluated at this node
        self.label = label
        self.raw = None  # test nodes: the source expression of this atom (before polarity normalisation)
        self.neg = False  # test nodes: the source atom was the negation of exprs[0] (edge labels refer to exprs[0])

    @property
    def lineno(self):
        for e in self.exprs:
            if hasattr(e, "lineno"):
                return e.lineno
        return getattr(self.stmt, "lineno", 0)

    def text(self) -> str:
        if self.kind in ("entry", "exit", "raise"):
            return f"<{self.kind}>"
        if self.kind == "test":
            return "if " + ast.unparse(self.exprs[0])
        if self.kind == "for":
            return f"for {ast.unparse(self.stmt.target)} in {ast.unparse(self.stmt.iter)}"
        if self.kind == "with":
            return "with " + ", ".join(ast.unparse(i) for i in self.stmt.items)
        if self.kind == "except":
            return "except " + (ast.unparse(self.stmt.type) if self.stmt.type else "")
        if self.kind == "try":
            return "try"
        if self.kind == "loop":
            return "while " + ast.unparse(self.stmt.test)
        if self.kind == "def":
            return f"def {self.stmt.name}"
        return ast.unparse(self.stmt).split("\n")[0]

    def __repr__(self):
        return f"<{self.idx}:{self.kind}:{self.text()[:50]}>"


def walk_local(node: ast.AST) -> Iterator[ast.AST]:
    """ast.walk that does not descend into nested function / lambda / class bodies."""
    todo = [node]
    while todo:
        n = todo.pop()
        yield n
        for ch in ast.iter_child_nodes(n):
            if isinstance(ch, (ast.FunctionDef, ast.AsyncFunctionDef, ast.Lambda, ast.ClassDef)):
                continue
            todo.append(ch)


def const_truth(e: ast.AST) -> Optional[bool]:
    if isinstance(e, ast.Constant):
        return bool(e.value)
    if isinstance(e, ast.UnaryOp) and isinstance(e.op, ast.Not):
        v = const_truth(e.operand)
        return None if v is None else not v
    return None


_NEG_OPS = {ast.NotIn: ast.In, ast.NotEq: ast.Eq, ast.IsNot: ast.Is}


def _is_len_call(e: ast.AST) -> bool:
    return isinstance(e, ast.Call) and isinstance(e.func, ast.Name) and e.func.id == "len" and len(e.args) == 1 and not e.keywords


def _int_const(e: ast.AST) -> Optional[int]:
    if isinstance(e, ast.Constant) and isinstance(e.value, int) and not isinstance(e.value, bool):
        return e.value
    return None


_PURE_BUILTINS = {"isinstance", "issubclass", "len", "hasattr", "callable", "type", "str", "int", "bool", "repr", "set", "frozenset", "list", "dict", "tuple", "sorted", "min", "max", "any", "all", "cast", "id"}


def _predicate_call(c: ast.Call) -> bool:
    """a call that by its name only inspects its arguments (is_*/has_*/_is_*/_node_is_* predicates, builtin conversions)"""
    f = c.func
    nm = f.id if isinstance(f, ast.Name) else f.attr if isinstance(f, ast.Attribute) else ""
    if isinstance(f, ast.Name) and nm in _PURE_BUILTINS:
        return True
    base = nm.lstrip("_")
    return base.startswith(("is_", "has_", "node_is_")) or nm in ("startswith", "endswith", "is_file", "is_dir", "is_symlink", "exists", "keys", "values", "items", "get")


def polarity(e: ast.AST) -> Tuple[ast.AST, bool]:
    """(positive atom, negated?) of an atomic condition.  `a not in b`, `a != b`, `a is not b`, `not a` are the
    negations of `a in b`, `a == b`, `a is b`, `a`; comparisons of len(x) with small integer constants are mapped to
    the two canonical atoms `len(x)` (non-empty) and `len(x) > n`."""
    neg = False
    while isinstance(e, ast.UnaryOp) and isinstance(e.op, ast.Not):
        e, neg = e.operand, not neg
    if isinstance(e, ast.Compare) and len(e.ops) == 1:
        op, l, r = e.ops[0], e.left, e.comparators[0]
        if type(op) in _NEG_OPS:
            e = ast.copy_location(ast.Compare(left=l, ops=[_NEG_OPS[type(op)]()], comparators=[r]), e)
            neg = not neg
            op = e.ops[0]
        if _is_len_call(r) and _int_const(l) is not None and type(op) in (ast.Gt, ast.GtE, ast.Lt, ast.LtE, ast.Eq):
            # mirror  n OP len(x)  ->  len(x) OP' n
            mop = {ast.Gt: ast.Lt, ast.GtE: ast.LtE, ast.Lt: ast.Gt, ast.LtE: ast.GtE, ast.Eq: ast.Eq}[type(op)]()
            e = ast.copy_location(ast.Compare(left=r, ops=[mop], comparators=[l]), e)
            op, l, r = mop, r, l
        if _is_len_call(l) and _int_const(r) is not None:
            n = _int_const(r)
            # len(x) OP n  ->  (threshold t, negated) meaning  [not] len(x) > t
            m = {ast.Gt: (n, False), ast.GtE: (n - 1, False), ast.Lt: (n - 1, True), ast.LtE: (n, True)}.get(type(op))
            if m is None and isinstance(op, ast.Eq) and n == 0:
                m = (0, True)
            if m is not None and m[0] >= 0:
                t, ng = m
                atom = l if t == 0 else ast.copy_location(ast.Compare(left=l, ops=[ast.Gt()], comparators=[ast.Constant(value=t)]), e)
                return atom, neg != ng
            if m is not None and m[0] < 0:
                # len(x) > -1 (always true) / len(x) < 0 (always false)
                return ast.copy_location(ast.Constant(value=True), e), neg != m[1]
    if isinstance(e, ast.Compare) and len(e.ops) == 1 and isinstance(e.ops[0], (ast.Gt, ast.GtE)) and not _is_len_call(e.left):
        mop = ast.Lt() if isinstance(e.ops[0], ast.Gt) else ast.LtE()
        e = ast.copy_location(ast.Compare(left=e.comparators[0], ops=[mop], comparators=[e.left]), e)
    return e, neg


class CFG:
    def __init__(self, func: ast.AST, noreturn: Optional[Callable[[ast.Call], bool]] = None):
        self.func = func
        self.nodes: List[Node] = []
        self.succ: Dict[int, List[Tuple[int, str]]] = {}
        self.pred: Dict[int, List[int]] = {}
        self._noreturn = noreturn or (lambda c: False)
        self._bdefs: Optional[Dict[str, ast.AST]] = None
        self._expanding: Set[str] = set()
        self.entry = self._new("entry").idx
        self.exit = self._new("exit").idx
        self.raise_exit = self._new("raise").idx
        body = func.body if isinstance(func.body, list) else [ast.Return(value=func.body)]
        ends = self._seq(body, [(self.entry, "")], _Ctx(self.raise_exit, [], None, None, None))
        for e, lab in ends:
            self._edge(e, self.exit, lab)
        for n in self.nodes:
            for s, _ in self.succ.get(n.idx, []):
                self.pred.setdefault(s, []).append(n.idx)

    # ------------------------------------------------------------ construction
    def _new(self, kind, stmt=None, exprs=(), label="") -> Node:
        n = Node(len(self.nodes), kind, stmt, exprs, label)
        self.nodes.append(n)
        self.succ[n.idx] = []
        return n

    def _edge(self, a: int, b: int, label=""):
        if (b, label) not in self.succ[a]:
            self.succ[a].append((b, label))

    def _link(self, frm: Sequence[Tuple[int, str]], to: int):
        for a, lab in frm:
            self._edge(a, to, lab)

    def _seq(self, body, frm, ctx) -> List[Tuple[int, str]]:
        cur = list(frm)
        for st in body:
            if not cur:
                break  # unreachable code
            cur = self._stmt(st, cur, ctx)
        return cur

    def _is_noreturn_stmt(self, st) -> bool:
        if isinstance(st, ast.Expr) and isinstance(st.value, ast.Call):
            return bool(self._noreturn(st.value))
        return False

    def _exc_targets(self, ctx) -> List[int]:
        """Where an exception raised at this point goes."""
        return list(ctx.handlers) if ctx.handlers else [ctx.raise_to]

    def _cond(self, e, frm, ctx, st) -> Tuple[List[Tuple[int, str]], List[Tuple[int, str]]]:
        """Short-circuit decomposition of a condition into atomic, polarity-normalised test nodes.
        Returns (edges taken when the condition is true, edges taken when it is false)."""
        if isinstance(e, ast.BoolOp):
            cur, other = list(frm), []
            for v in e.values:
                t, f = self._cond(v, cur, ctx, st)
                if isinstance(e.op, ast.And):
                    other += f
                    cur = t
                else:
                    other += t
                    cur = f
                if not cur:
                    break
            return (cur, other) if isinstance(e.op, ast.And) else (other, cur)
        if isinstance(e, ast.UnaryOp) and isinstance(e.op, ast.Not):
            t, f = self._cond(e.operand, frm, ctx, st)
            return f, t
        if isinstance(e, ast.Name):
            # a local that merely names a boolean combination (`found = a == b; deleted = ...; if found and not deleted`)
            d = self._bool_defs().get(e.id)
            if d is not None and e.id not in self._expanding:
                self._expanding.add(e.id)
                try:
                    return self._cond(d, frm, ctx, st)
                finally:
                    self._expanding.discard(e.id)
        atom, neg = polarity(e)
        truth = const_truth(atom)
        if truth is not None:
            truth = truth != neg
            return (list(frm), []) if truth else ([], list(frm))
        n = self._new("test", st, [atom])
        n.raw, n.neg = e, neg
        self._link(frm, n.idx)
        self._implicit_exc(n, ctx)
        t, f = [(n.idx, "T")], [(n.idx, "F")]
        return (f, t) if neg else (t, f)

    def _bool_defs(self) -> Dict[str, ast.AST]:
        if self._bdefs is None:
            from .match import single_defs

            self._bdefs = {}
            if isinstance(self.func, (ast.FunctionDef, ast.AsyncFunctionDef)):
                for k, v in single_defs(self.func).items():
                    if isinstance(v, (ast.BoolOp, ast.Compare)) or (isinstance(v, ast.UnaryOp) and isinstance(v.op, ast.Not)):
                        self._bdefs[k] = v
        return self._bdefs

    def _stmt(self, st, frm, ctx) -> List[Tuple[int, str]]:
        if isinstance(st, ast.If):
            t_out, f_out = self._cond(st.test, frm, ctx, st)
            out = []
            if t_out:
                out += self._seq(st.body, t_out, ctx)
            if f_out:
                out += self._seq(st.orelse, f_out, ctx) if st.orelse else f_out
            return out
        if isinstance(st, ast.While):
            # loop head: a join node so that `continue` and the back edge have one target
            h = self._new("loop", st, [])
            self._link(frm, h.idx)
            lctx = ctx.loop(h.idx)
            t_out, f_out = self._cond(st.test, [(h.idx, "")], ctx, st)
            body_out = self._seq(st.body, t_out, lctx) if t_out else []
            self._link(body_out, h.idx)
            out = []
            if f_out:
                out += self._seq(st.orelse, f_out, ctx) if st.orelse else f_out
            out += lctx.breaks
            return out
        if isinstance(st, (ast.For, ast.AsyncFor)):
            h = self._new("for", st, [st.iter, st.target])
            self._link(frm, h.idx)
            self._implicit_exc(h, ctx)
            lctx = ctx.loop(h.idx)
            body_out = self._seq(st.body, [(h.idx, "iter")], lctx)
            self._link(body_out, h.idx)
            out = self._seq(st.orelse, [(h.idx, "done")], ctx) if st.orelse else [(h.idx, "done")]
            out += lctx.breaks
            return out
        if isinstance(st, (ast.With, ast.AsyncWith)):
            w = self._new("with", st, [i.context_expr for i in st.items] + [i.optional_vars for i in st.items if i.optional_vars])
            self._link(frm, w.idx)
            self._implicit_exc(w, ctx)
            return self._seq(st.body, [(w.idx, "")], ctx)
        if isinstance(st, ast.Try):
            return self._try(st, frm, ctx)
        if isinstance(st, (ast.FunctionDef, ast.AsyncFunctionDef, ast.ClassDef)):
            d = self._new("def", st, [])
            self._link(frm, d.idx)
            return [(d.idx, "")]
        if isinstance(st, ast.Return):
            n = self._new("stmt", st, [st])
            self._link(frm, n.idx)
            self._implicit_exc(n, ctx)
            if ctx.finally_ret is not None:
                ctx.finally_ret.append((n.idx, "ret"))
            else:
                self._edge(n.idx, self.exit, "ret")
            return []
        if isinstance(st, ast.Raise):
            n = self._new("stmt", st, [st])
            self._link(frm, n.idx)
            for tgt in self._exc_targets(ctx):
                self._edge(n.idx, tgt, "exc")
            if ctx.handlers and not ctx.catch_all:
                self._edge(n.idx, ctx.raise_to, "exc")
            return []
        if isinstance(st, ast.Break):
            n = self._new("stmt", st, [st])
            self._link(frm, n.idx)
            ctx.breaks.append((n.idx, "break"))
            return []
        if isinstance(st, ast.Continue):
            n = self._new("stmt", st, [st])
            self._link(frm, n.idx)
            self._edge(n.idx, ctx.loop_head, "continue")
            return []
        if isinstance(st, ast.Match):
            raise NotImplementedError("match statement")
        if isinstance(st, ast.Assert) and const_truth(st.test) is None:
            # `assert c` is `if not c: raise AssertionError`: the condition is decomposed like any other test, the failing
            # edges end in a synthetic raise, the passing edges continue through a node that carries the statement
            t_out, f_out = self._cond(st.test, frm, ctx, st)
            if f_out:
                fail = ast.copy_location(ast.Raise(exc=ast.Call(func=ast.Name(id="AssertionError", ctx=ast.Load()), args=[], keywords=[]), cause=None), st)
                ast.fix_missing_locations(fail)
                fail._mdsa_assert = st  # synthetic: the failing side of an assert
                fn = self._new("stmt", fail, [])
                self._link(f_out, fn.idx)
                for tgt in self._exc_targets(ctx):
                    self._edge(fn.idx, tgt, "assert")
            if not t_out:
                return []
            n = self._new("stmt", st, [])
            self._link(t_out, n.idx)
            self._implicit_exc(n, ctx)
            return [(n.idx, "")]
        # simple statement
        n = self._new("stmt", st, [st])
        self._link(frm, n.idx)
        if self._is_noreturn_stmt(st):
            for tgt in self._exc_targets(ctx):
                self._edge(n.idx, tgt, "exc")
            if ctx.handlers and not ctx.catch_all:
                self._edge(n.idx, ctx.raise_to, "exc")
            return []
        if isinstance(st, ast.Assert):
            truth = const_truth(st.test)
            if truth is not True:
                for tgt in self._exc_targets(ctx):
                    self._edge(n.idx, tgt, "assert")
            if truth is False:
                return []
        self._implicit_exc(n, ctx)
        return [(n.idx, "")]

    def _implicit_exc(self, n: Node, ctx):
        """Inside a try with handlers any node may transfer to a handler."""
        for h in ctx.handlers:
            self._edge(n.idx, h, "exc")

    def _try(self, st: ast.Try, frm, ctx):
        t = self._new("try", st, [])
        self._link(frm, t.idx)
        handlers = [self._new("except", h, [h.type] if h.type else []) for h in st.handlers]
        catch_all = any(
            h.type is None or (isinstance(h.type, ast.Name) and h.type.id in ("Exception", "BaseException"))
            for h in st.handlers
        )
        fin_ret: Optional[list] = [] if st.finalbody else None
        # where exceptions escaping this try statement go
        fin_exc_entry: Optional[Node] = None
        raise_to = ctx.raise_to
        outer_handlers = ctx.handlers
        if st.finalbody:
            fin_exc_entry = self._new("try", st, [], "finally(exc)")
            exc_out = self._seq(st.finalbody, [(fin_exc_entry.idx, "")], ctx)
            for tgt in (outer_handlers or [raise_to]):
                self._link(exc_out, tgt)
            if outer_handlers and not ctx.catch_all:
                self._link(exc_out, raise_to)
            body_raise_to, body_outer_handlers = fin_exc_entry.idx, []
        else:
            body_raise_to, body_outer_handlers = raise_to, outer_handlers
        hidx = [h.idx for h in handlers]
        bctx = _Ctx(
            body_raise_to if not hidx else body_raise_to,
            hidx if hidx else body_outer_handlers,
            ctx.loop_head,
            ctx.breaks,
            fin_ret if fin_ret is not None else ctx.finally_ret,
            catch_all=catch_all if hidx else ctx.catch_all,
        )
        if hidx:
            for h in hidx:
                self._edge(t.idx, h, "exc")
        if fin_exc_entry is not None and not (hidx and catch_all):
            # an exception anywhere in the body that no handler of this try catches runs the finally body on its way out:
            # the exceptional copy of the finally body is entered "from the try" (any prefix of the body may have run)
            self._edge(t.idx, fin_exc_entry.idx, "exc")
        body_out = self._seq(st.body, [(t.idx, "")], bctx)
        # handlers and else run outside the protection of this try's handlers
        hctx = _Ctx(body_raise_to, body_outer_handlers, ctx.loop_head, ctx.breaks,
                    fin_ret if fin_ret is not None else ctx.finally_ret, catch_all=ctx.catch_all if not st.finalbody else False)
        out = self._seq(st.orelse, body_out, hctx) if st.orelse else body_out
        for h, hn in zip(st.handlers, handlers):
            out += self._seq(h.body, [(hn.idx, "")], hctx)
        if st.finalbody:
            out = self._seq(st.finalbody, out, ctx)
            if fin_ret:
                rn = self._new("try", st, [], "finally(ret)")
                self._link(fin_ret, rn.idx)
                r_out = self._seq(st.finalbody, [(rn.idx, "")], ctx)
                if ctx.finally_ret is not None:
                    ctx.finally_ret.extend(r_out)
                else:
                    self._link(r_out, self.exit)
        return out

    # ------------------------------------------------------------ queries
    def reach(self, src: Iterable[int], avoid: Iterable[int] = (), labels_block: Iterable[Tuple[int, str]] = ()) -> Set[int]:
        """Nodes reachable from src without entering a node in `avoid` (src nodes themselves are not
        tested against avoid).  labels_block: (node, label) out-edges that must not be followed."""
        avoid = set(avoid)
        block = set(labels_block)
        seen: Set[int] = set()
        todo = list(src)
        seen.update(todo)
        while todo:
            a = todo.pop()
            for b, lab in self.succ[a]:
                if (a, lab) in block or b in avoid or b in seen:
                    continue
                seen.add(b)
                todo.append(b)
        return seen

    # -- path-sensitive variant: a path may not take contradictory out-edges of two tests of the same atom
    def _atom_info(self):
        if getattr(self, "_ainfo", None) is None:
            keys: Dict[int, str] = {}
            count: Dict[str, int] = {}
            for n in self.nodes:
                if n.kind == "test":
                    k = " ".join(ast.unparse(n.exprs[0]).split())
                    keys[n.idx] = k
                    count[k] = count.get(k, 0) + 1
            # what an assignment tells about later tests of the assigned name: `v = None` makes `v is None` true and
            # `v` false; a value that cannot be None makes `v is None` false  (the flag idiom: v = None; if c: v = x; ..
            # if v is not None: ..)
            facts: Dict[int, List[Tuple[str, str]]] = {}
            present = set(count)
            for n in self.nodes:
                if n.kind != "stmt" or not isinstance(n.stmt, (ast.Assign, ast.AnnAssign)) or n.stmt.value is None:
                    continue
                tg = n.stmt.targets if isinstance(n.stmt, ast.Assign) else [n.stmt.target]
                if len(tg) != 1 or not isinstance(tg[0], ast.Name):
                    continue
                v, val = tg[0].id, n.stmt.value
                fs = []
                if isinstance(val, ast.Constant) and val.value is None:
                    fs = [(f"{v} is None", "T"), (v, "F")]
                elif self._surely_not_none(val):
                    fs = [(f"{v} is None", "F")]
                    if isinstance(val, ast.Constant):
                        fs.append((v, "T" if val.value else "F"))
                fs = [(k, l) for k, l in fs if k in present]
                if fs:
                    facts[n.idx] = fs
            tracked = {k for k, c in count.items() if c > 1} | {k for fl in facts.values() for k, _ in fl}
            pure: Dict[str, bool] = {}
            names: Dict[str, Set[str]] = {}
            for n in self.nodes:
                if n.kind == "test" and keys[n.idx] in tracked and keys[n.idx] not in pure:
                    e = n.exprs[0]
                    k = keys[n.idx]
                    names[k] = {x.id for x in ast.walk(e) if isinstance(x, ast.Name)}
                    imp = False
                    stable_funcs = {id(x.func) for x in ast.walk(e) if isinstance(x, ast.Call) and isinstance(x.func, ast.Attribute) and isinstance(x.func.value, ast.Name) and x.func.attr in ("is_file", "is_symlink", "is_dir", "exists", "is_absolute") and not x.args}
                    for x in ast.walk(e):
                        if isinstance(x, (ast.Attribute, ast.Subscript, ast.NamedExpr)) and id(x) not in stable_funcs:
                            imp = True
                        elif isinstance(x, ast.Call) and not (isinstance(x.func, ast.Name) and x.func.id in ("isinstance", "len", "callable", "issubclass", "hasattr")) and not (
                                isinstance(x.func, ast.Attribute) and isinstance(x.func.value, ast.Name) and x.func.attr in ("is_file", "is_symlink", "is_dir", "exists", "is_absolute") and not x.args):
                            imp = True
                    pure[k] = not imp
            kills: Dict[int, Tuple[Set[str], bool]] = {}
            for n in self.nodes:
                if n.kind in ("stmt", "for", "with", "def", "except") or (n.kind == "test" and any(isinstance(x, ast.NamedExpr) for x in ast.walk(n.exprs[0]))):
                    stored: Set[str] = set()
                    eff = False
                    roots = [e for e in n.exprs if e is not None]
                    if n.kind == "def" and n.stmt is not None:
                        stored.add(n.stmt.name)
                    if n.kind == "except" and n.stmt is not None and getattr(n.stmt, "name", None):
                        stored.add(n.stmt.name)
                    for r in roots:
                        for x in walk_local(r):
                            if isinstance(x, ast.Name) and isinstance(x.ctx, (ast.Store, ast.Del)):
                                stored.add(x.id)
                            elif isinstance(x, ast.Call) and _predicate_call(x):
                                pass  # predicates / conversions do not change what conditions read
                            elif isinstance(x, (ast.Call, ast.Delete, ast.Await, ast.Yield, ast.YieldFrom)):
                                eff = True
                            elif isinstance(x, (ast.Attribute, ast.Subscript)) and isinstance(x.ctx, (ast.Store, ast.Del)):
                                eff = True
                    if n.kind == "for" and n.stmt is not None:
                        stored |= {x.id for x in ast.walk(n.stmt.target) if isinstance(x, ast.Name)}
                        eff = True
                    if n.kind == "with":
                        eff = True
                    kills[n.idx] = (stored, eff)
            self._afacts = facts
            self._ainfo = (keys, tracked, pure, names, kills)
        return self._ainfo

    _PATHLIKE_ATTRS = ("name", "parent", "parts", "stem", "suffix")

    def _surely_not_none(self, val: ast.AST) -> bool:
        if isinstance(val, ast.Constant):
            return val.value is not None
        if isinstance(val, (ast.JoinedStr, ast.List, ast.Dict, ast.Set, ast.Tuple, ast.ListComp, ast.DictComp, ast.SetComp, ast.GeneratorExp, ast.BinOp, ast.Compare, ast.Lambda)):
            return True
        if isinstance(val, ast.Call) and isinstance(val.func, ast.Name) and val.func.id in ("str", "int", "float", "bool", "bytes", "dict", "list", "set", "tuple", "frozenset", "len", "sorted", "Path", "repr", "type"):
            return True
        if isinstance(val, ast.Attribute) and val.attr in self._PATHLIKE_ATTRS and isinstance(val.value, ast.Name):
            # path.name etc. of a local that is only ever assigned pathlib expressions
            defs = [st.value for st in walk_local(self.func) if isinstance(st, ast.Assign) and len(st.targets) == 1 and isinstance(st.targets[0], ast.Name) and st.targets[0].id == val.value.id]

            def pathish(e):
                if isinstance(e, ast.Call) and isinstance(e.func, ast.Attribute) and e.func.attr in ("relative_to", "resolve", "absolute", "with_name", "with_suffix", "joinpath", "expanduser"):
                    return True
                if isinstance(e, ast.Call) and isinstance(e.func, ast.Name) and e.func.id in ("Path", "PurePath"):
                    return True
                if isinstance(e, ast.Attribute) and e.attr == "parent":
                    return True
                return isinstance(e, ast.BinOp) and isinstance(e.op, ast.Div)

            return bool(defs) and all(pathish(d) for d in defs)
        return False

    def reach_consistent(self, src: Iterable[int], avoid: Iterable[int] = (), labels_block: Iterable[Tuple[int, str]] = (), start_edges: Iterable[Tuple[int, str]] = ()) -> Set[int]:
        """Like reach, but a path never takes the T edge of one test and the F edge of another test of the *same
        atom* unless something in between may have changed the atom's value (a store to one of its names, or any
        call / delete / attribute or item store when the atom reads attributes, items or calls)."""
        keys, tracked, pure, names, kills = self._atom_info()
        afacts = self._afacts
        avoid = set(avoid)
        block = set(labels_block)
        start = [(s, frozenset()) for s in src]
        for t, lab in start_edges:
            for b, l in self.succ[t]:
                if l == lab and b not in avoid:
                    key = keys.get(t)
                    start.append((b, frozenset({(key, lab)}) if key in tracked else frozenset()))
        if not tracked:
            return self.reach([s for s, _ in start], avoid, labels_block)
        seen = set(start)
        todo = list(start)
        out: Set[int] = {s for s, _ in start}
        while todo:
            a, env = todo.pop()
            k = kills.get(a)
            if k is not None and env:
                stored, eff = k
                env = frozenset((key, lab) for key, lab in env if not (names[key] & stored) and not (eff and not pure[key]))
            fa = afacts.get(a)
            if fa:
                env = frozenset(env | set(fa))
            for b, lab in self.succ[a]:
                if (a, lab) in block or b in avoid:
                    continue
                env2 = env
                key = keys.get(a)
                if key in tracked and lab in ("T", "F"):
                    if (key, "F" if lab == "T" else "T") in env:
                        continue  # contradicts an earlier outcome of the same atom
                    env2 = env | {(key, lab)}
                st = (b, env2)
                if st in seen:
                    continue
                seen.add(st)
                out.add(b)
                todo.append(st)
        return out

    def every_path_passes(self, through: Iterable[int], dst: int, src: Optional[int] = None, src_label: Optional[str] = None) -> bool:
        """True iff every path from src (default entry; optionally only its out-edges labelled src_label)
        to dst passes a node of `through`."""
        through = set(through)
        s = self.entry if src is None else src
        if src_label is None:
            starts = [s]
        else:
            starts = [b for b, lab in self.succ[s] if lab == src_label and b not in through]
            if dst in starts:
                return False
        if dst in through:
            return True
        return dst not in self.reach(starts, avoid=through)

    def edge_dominates(self, test: int, label: str, node: int) -> bool:
        """Every path from entry to `node` takes the out-edge of `test` labelled `label`
        (robust in loops, unlike 'not reachable from the other branch')."""
        return node not in self.reach([self.entry], labels_block=[(test, label)])

    def edges_dominate(self, edges: Iterable[Tuple[int, str]], node: int, src: Optional[int] = None) -> bool:
        """Every path from src (default entry) to `node` takes at least one of the given (test, label) out-edges."""
        return node not in self.reach([self.entry if src is None else src], labels_block=list(edges))

    def other(self, label: str) -> str:
        return {"T": "F", "F": "T"}[label]

    def find_path(self, dst: int, avoid: Iterable[int] = (), src: Optional[int] = None, src_label: Optional[str] = None) -> Optional[List[int]]:
        """Some path src -> dst avoiding `avoid` (for diagnostics)."""
        avoid = set(avoid)
        s = self.entry if src is None else src
        prev: Dict[int, Optional[int]] = {s: None}
        if src_label is None:
            todo = [s]
        else:
            todo = []
            for b, lab in self.succ[s]:
                if lab == src_label and b not in avoid:
                    prev[b] = s
                    todo.append(b)
        i = 0
        while i < len(todo):
            a = todo[i]
            i += 1
            if a == dst:
                break
            for b, _ in self.succ[a]:
                if b in avoid or b in prev:
                    continue
                prev[b] = a
                todo.append(b)
        if dst not in prev:
            return None
        out, x = [], dst
        while x is not None:
            out.append(x)
            x = prev[x]
        return list(reversed(out))

    def path_text(self, path: Optional[List[int]]) -> List[str]:
        if not path:
            return []
        return [f"L{self.nodes[i].lineno}: {self.nodes[i].text()}" for i in path]

    def where(self, pred: Callable[[Node], bool]) -> List[int]:
        return [n.idx for n in self.nodes if n.kind not in ("entry", "exit", "raise") and pred(n)]

    def nodes_with(self, pred: Callable[[ast.AST], bool]) -> List[int]:
        """Nodes one of whose evaluated expressions contains an ast node satisfying pred."""
        out = []
        for n in self.nodes:
            for e in n.exprs:
                if e is not None and any(pred(x) for x in walk_local(e)):
                    out.append(n.idx)
                    break
        return out

    def calls(self, node_idx: int) -> List[ast.Call]:
        out = []
        for e in self.nodes[node_idx].exprs:
            if e is not None:
                out += [x for x in walk_local(e) if isinstance(x, ast.Call)]
        return out

    def live_nodes(self) -> Set[int]:
        return self.reach([self.entry])


class _Ctx:
    def __init__(self, raise_to, handlers, loop_head, breaks, finally_ret, catch_all=False):
        self.raise_to = raise_to
        self.handlers = handlers
        self.loop_head = loop_head
        self.breaks = breaks
        self.finally_ret = finally_ret
        self.catch_all = catch_all

    def loop(self, head):
        return _Ctx(self.raise_to, self.handlers, head, [], self.finally_ret, self.catch_all)
