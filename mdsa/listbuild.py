"""Abstract interpretation of a function that builds and returns a list: the *sequence of emission tokens* of the
result, independent of how the building is spelled (one loop over a literal bucket list, straight-line `+=`,
a local helper, comprehensions ...).

Tokens:  'self'                       the object itself is emitted
         ('bucket', <expr text>, sorted_by_path: bool, recursive: bool)
                                      every element of a mapping's values, in sorted path order or not, each expanded
                                      through its own method (recursive) or as is
Anything else raises Unrecognised (callers turn that into exit 2, never into a violation).
"""
from __future__ import annotations

import ast
from typing import Dict, List, Optional, Tuple, Union


class Unrecognised(Exception):
    pass


def _txt(e) -> str:
    return " ".join(ast.unparse(e).split())


class _Child:
    def __init__(self, bucket: str, is_sorted: bool):
        self.bucket = bucket
        self.sorted = is_sorted


class ListBuild:
    def __init__(self, func: ast.FunctionDef, rec_method: str):
        self.func = func
        self.rec = rec_method
        self.env: Dict[str, object] = {}  # name -> list of tokens | ast expr (alias) | _Child | None-constant marker
        self.notes: List[str] = []

    # ------------------------------------------------------------- values
    def resolve(self, e: ast.AST):
        while isinstance(e, ast.Name) and e.id in self.env and isinstance(self.env[e.id], ast.AST):
            e = self.env[e.id]
        return e

    def _sorted_values(self, it: ast.AST) -> Optional[Tuple[str, bool]]:
        """iteration over the values of a mapping -> (mapping text, sorted by .path?)"""
        it = self.resolve(it)
        is_sorted = False
        if isinstance(it, ast.Call) and _txt(it.func) == "sorted" and it.args:
            key = next((k.value for k in it.keywords if k.arg == "key"), None)
            if isinstance(key, ast.Lambda) and len(key.args.args) == 1 and _txt(key.body) == f"{key.args.args[0].arg}.path":
                is_sorted = True
            elif key is not None and _txt(key) in ("attrgetter('path')", "operator.attrgetter('path')"):
                is_sorted = True
            it = self.resolve(it.args[0])
        if isinstance(it, ast.Call) and isinstance(it.func, ast.Attribute) and it.func.attr == "values" and not it.args:
            return _txt(self.resolve(it.func.value)), is_sorted
        return None

    def val(self, e: ast.AST) -> List:
        e0 = e
        if isinstance(e, ast.Name) and e.id in self.env:
            v = self.env[e.id]
            if isinstance(v, list):
                return list(v)
            if isinstance(v, _Child):
                raise Unrecognised(f"child `{e.id}` used as a list")
            return self.val(v)
        if isinstance(e, ast.List):
            out: List = []
            for el in e.elts:
                if isinstance(el, ast.Starred):
                    out += self.val(el.value)
                else:
                    out += self.elem(el)
            return out
        if isinstance(e, ast.BinOp) and isinstance(e.op, ast.Add):
            return self.val(e.left) + self.val(e.right)
        if isinstance(e, ast.Call) and _txt(e.func) == "list" and len(e.args) <= 1:
            return self.val(e.args[0]) if e.args else []
        if isinstance(e, ast.Call) and isinstance(e.func, ast.Attribute) and e.func.attr == self.rec and not e.args:
            r = e.func.value
            if isinstance(r, ast.Name) and isinstance(self.env.get(r.id), _Child):
                c = self.env[r.id]
                return [("bucket", c.bucket, c.sorted, True)]
        if isinstance(e, ast.ListComp):
            return self.comp(e)
        raise Unrecognised(f"list value `{_txt(e0)[:60]}`")

    def elem(self, el: ast.AST) -> List:
        if isinstance(el, ast.Name) and el.id == "self":
            return ["self"]
        if isinstance(el, ast.Name) and isinstance(self.env.get(el.id), _Child):
            c = self.env[el.id]
            return [("bucket", c.bucket, c.sorted, False)]
        raise Unrecognised(f"list element `{_txt(el)[:60]}`")

    def comp(self, e: ast.ListComp) -> List:
        saved = dict(self.env)
        try:
            gens = e.generators
            if any(g.ifs for g in gens):
                raise Unrecognised("filtered comprehension")
            sv = self._sorted_values(gens[0].iter)
            if sv is None or not isinstance(gens[0].target, ast.Name):
                raise Unrecognised(f"comprehension over `{_txt(gens[0].iter)[:50]}`")
            self.env[gens[0].target.id] = _Child(sv[0], sv[1])
            if len(gens) == 1:
                return self.elem(e.elt)
            if len(gens) == 2 and isinstance(gens[1].target, ast.Name) and isinstance(e.elt, ast.Name) and e.elt.id == gens[1].target.id:
                return self.val(gens[1].iter)
            raise Unrecognised("comprehension shape")
        finally:
            self.env = saved

    # ------------------------------------------------------------- statements
    def _is_none(self, e: ast.AST) -> Optional[bool]:
        e = self.resolve(e)
        if isinstance(e, ast.Constant):
            return e.value is None
        if isinstance(e, (ast.Attribute, ast.Call, ast.Subscript, ast.Dict, ast.List)):
            return False
        return None

    def cond(self, t: ast.AST) -> Optional[bool]:
        t = self.resolve(t)
        if isinstance(t, ast.UnaryOp) and isinstance(t.op, ast.Not):
            r = self.cond(t.operand)
            return None if r is None else not r
        if isinstance(t, ast.Compare) and len(t.ops) == 1 and isinstance(t.comparators[0], ast.Constant) and t.comparators[0].value is None:
            r = self._is_none(t.left)
            if r is None:
                return None
            return r if isinstance(t.ops[0], ast.Is) else (not r) if isinstance(t.ops[0], ast.IsNot) else None
        return None

    def fork(self) -> "ListBuild":
        import copy

        o = ListBuild(self.func, self.rec)
        o.env = {k: (list(v) if isinstance(v, list) else v) for k, v in self.env.items()}
        o.notes = self.notes
        return o

    def run(self, body: List[ast.stmt]) -> List[Tuple["ListBuild", Optional[List]]]:
        """all (state, returned list or None) outcomes of executing the statements; unknown conditions fork"""
        states: List[Tuple[ListBuild, Optional[List]]] = [(self, None)]
        for st in body:
            nxt: List[Tuple[ListBuild, Optional[List]]] = []
            for lb, res in states:
                if res is not None:
                    nxt.append((lb, res))
                    continue
                nxt += lb.step(st)
            states = nxt
            if len(states) > 64:
                raise Unrecognised("too many paths")
        return states

    def step(self, st: ast.stmt) -> List[Tuple["ListBuild", Optional[List]]]:
        if isinstance(st, ast.If):
            r = self.cond(st.test)
            if r is None:
                self.notes.append(f"condition not decided statically: {_txt(st.test)[:60]}")
                a, b = self.fork(), self.fork()
                return a.run(st.body) + b.run(st.orelse)
            return self.run(st.body if r else st.orelse)
        if isinstance(st, ast.Return):
            return [(self, self.val(st.value) if st.value is not None else [])]
        if isinstance(st, ast.For) and isinstance(st.target, ast.Name) and not st.orelse:
            it = self.resolve(st.iter)
            if isinstance(it, ast.Call) and _txt(it.func) == "reversed":
                raise Unrecognised("reversed iteration")
            if isinstance(it, (ast.List, ast.Tuple)):
                states: List[Tuple[ListBuild, Optional[List]]] = [(self, None)]
                for el in it.elts:
                    nxt = []
                    for lb, res in states:
                        if res is not None:
                            nxt.append((lb, res))
                            continue
                        lb.env[st.target.id] = el
                        nxt += lb.run(st.body)
                    states = nxt
                return states
            sv = self._sorted_values(it)
            if sv is not None:
                self.env[st.target.id] = _Child(sv[0], sv[1])
                return self.run(st.body)  # one symbolic iteration stands for all
            raise Unrecognised(f"loop over `{_txt(st.iter)[:60]}`")
        self.stmt(st)
        return [(self, None)]

    def stmt(self, st: ast.stmt):
        if isinstance(st, ast.Expr) and isinstance(st.value, ast.Constant):
            return
        if isinstance(st, (ast.FunctionDef, ast.Pass)):
            return
        if isinstance(st, (ast.Assign, ast.AnnAssign)):
            value = st.value
            targets = st.targets if isinstance(st, ast.Assign) else [st.target]
            if value is None:
                return
            for t in targets:
                if isinstance(t, ast.Tuple) and isinstance(value, ast.Tuple) and len(t.elts) == len(value.elts):
                    for a, b in zip(t.elts, value.elts):
                        if isinstance(a, ast.Name):
                            self.env[a.id] = b
                elif isinstance(t, ast.Name):
                    try:
                        self.env[t.id] = self.val(value)
                    except Unrecognised:
                        self.env[t.id] = value  # an alias for some expression
                else:
                    raise Unrecognised(f"store `{_txt(st)[:60]}`")
            return
        if isinstance(st, ast.AugAssign) and isinstance(st.op, ast.Add) and isinstance(st.target, ast.Name) and isinstance(self.env.get(st.target.id), list):
            self.env[st.target.id] = self.env[st.target.id] + self.val(st.value)
            return
        if isinstance(st, ast.Expr) and isinstance(st.value, ast.Call) and isinstance(st.value.func, ast.Attribute) and isinstance(st.value.func.value, ast.Name) and isinstance(self.env.get(st.value.func.value.id), list):
            nm, c = st.value.func.value.id, st.value
            if c.func.attr == "append" and len(c.args) == 1:
                self.env[nm] = self.env[nm] + self.elem(c.args[0])
                return
            if c.func.attr == "extend" and len(c.args) == 1:
                self.env[nm] = self.env[nm] + self.val(c.args[0])
                return
        raise Unrecognised(f"statement `{_txt(st)[:60]}`")


def emission_sequences(func: ast.FunctionDef, rec_method: str) -> Tuple[List[List], List[str]]:
    """every possible returned token sequence (conditions that cannot be decided statically fork), plus notes"""
    lb = ListBuild(func, rec_method)
    outs = lb.run(func.body)
    res = [r for _, r in outs if r is not None]
    if not res or len(res) != len(outs):
        raise Unrecognised("a path ends without return")
    uniq: List[List] = []
    for r in res:
        if r not in uniq:
            uniq.append(r)
    return uniq, lb.notes
