"""Obligations, findings, known-findings handling, evidence and exit codes."""
from __future__ import annotations

import hashlib
import json
import os
import time
from pathlib import Path
from typing import Dict, List, Optional

from .loader import AnalysisError

VERIF = Path(__file__).resolve().parent.parent
KNOWN_FILE = VERIF / "known_findings.json"


class Finding:
    def __init__(self, rule, func, construct, message, loc, path=None, extra=None):
        self.rule = rule
        self.func = func
        self.construct = construct
        self.message = message
        self.loc = loc
        self.path = path or []
        self.extra = extra or {}

    @property
    def key(self) -> str:
        return f"{self.rule}|{self.func}|{self.construct}"

    def to_json(self):
        return {
            "rule": self.rule,
            "function": self.func,
            "construct": self.construct,
            "message": self.message,
            "location": self.loc,
            "path": self.path,
            "key": self.key,
            **({"extra": self.extra} if self.extra else {}),
        }


class Report:
    """Collects the obligations a check discharged on one run."""

    def __init__(self, pid: str, tier: str = "quick"):
        self.pid = pid
        self.tier = tier
        self.t0 = time.time()
        self.obligations: List[dict] = []
        self.findings: List[Finding] = []
        self.infos: List[str] = []
        self.rule_counts: Dict[str, int] = {}
        self.assumptions: List[str] = []
        self.explanation = ""
        self.not_decided = ""
        self.program_stats: Dict[str, int] = {}
        self.analysed_functions: set = set()
        self.extra_coverage: Dict[str, object] = {}
        self.analysis_errors: List[str] = []

    def attempt(self, fn, *args, **kw):
        """Run one rule; an AnalysisError of that rule is recorded (exit 2 unless another rule found a
        violation) instead of hiding the findings of the other rules."""
        try:
            return fn(*args, **kw)
        except AnalysisError as e:
            self.analysis_errors.append(f"{getattr(fn, '__name__', fn)}: {e}")
            return None

    # -------------------------------------------------------------- recording
    def ok(self, rule: str, func: str, what: str, loc: str = ""):
        self.obligations.append({"rule": rule, "function": func, "obligation": what, "location": loc, "discharged": True})
        self.rule_counts[rule] = self.rule_counts.get(rule, 0) + 1
        if func:
            self.analysed_functions.add(func)

    def fail(self, rule: str, func: str, construct: str, message: str, loc: str = "", path=None, what: Optional[str] = None, extra=None):
        self.obligations.append({"rule": rule, "function": func, "obligation": what or message, "location": loc, "discharged": False})
        self.rule_counts[rule] = self.rule_counts.get(rule, 0) + 1
        if func:
            self.analysed_functions.add(func)
        self.findings.append(Finding(rule, func, construct, message, loc, path, extra))

    def check(self, cond: bool, rule: str, func: str, what: str, loc: str = "", construct: str = "", message: str = "", path=None):
        if cond:
            self.ok(rule, func, what, loc)
        else:
            self.fail(rule, func, construct or what, message or f"obligation not met: {what}", loc, path, what)
        return cond

    def info(self, msg: str):
        self.infos.append(msg)

    def floor(self, rule: str, minimum: int, what: str = "rule instances"):
        """Fail closed when a rule matched fewer sites than confirmed by hand."""
        n = self.rule_counts.get(rule, 0)
        if n < minimum:
            self.analysis_errors.append(f"{rule}: only {n} {what} found, expected at least {minimum} (rule would pass vacuously)")

    # -------------------------------------------------------------- finishing
    def finish(self, write: bool = True, evidence_dir: Optional[Path] = None, quiet: bool = False) -> int:
        known = _load_known()
        known_keys = {k["key"]: k for k in known.get("known", []) if k.get("property") == self.pid}
        new, listed = [], []
        for f in self.findings:
            (listed if f.key in known_keys else new).append(f)
        out = []
        out.append(
            f"[{self.pid}] tier={self.tier} analysed: {self.program_stats.get('modules', 0)} modules, "
            f"{self.program_stats.get('functions', 0)} functions in package; {len(self.analysed_functions)} functions under rules; "
            f"{len(self.obligations)} obligations, {sum(1 for o in self.obligations if o['discharged'])} discharged"
        )
        for r in sorted(self.rule_counts):
            nfail = sum(1 for f in self.findings if f.rule == r)
            out.append(f"  rule {r}: {self.rule_counts[r]} obligations, {nfail} not met")
        for i in self.infos:
            out.append(f"  info: {i}")
        seen_known = set()
        for f in listed:
            if f.key in seen_known:
                continue
            seen_known.add(f.key)
            out.append(f"KNOWN-FINDING: property={self.pid} {f.rule} {f.func}: {known_keys[f.key].get('what', f.message)}")
        replay = None
        if new:
            rdir = VERIF / "out" / "replay"
            rdir.mkdir(parents=True, exist_ok=True)
            replay = rdir / f"{self.pid}.json"
            replay.write_text(json.dumps({"property": self.pid, "tier": self.tier, "violations": [f.to_json() for f in new]}, indent=1))
            for f in new:
                out.append(f"  VIOLATED {f.rule} at {f.loc} in {f.func}: {f.message}")
                out.append(f"           construct: {f.construct}")
                for p in f.path[:12]:
                    out.append(f"           path: {p}")
            out.append(f"VIOLATION property={self.pid} replay={replay}")
        for e in self.analysis_errors:
            out.append(f"  analysis-error (rule skipped): {e}")
        wall = time.time() - self.t0
        if self.analysis_errors and not new:
            if not quiet:
                print("\n".join(out))
            raise AnalysisError("; ".join(self.analysis_errors))
        if write:
            self._write_evidence(evidence_dir or (VERIF / "evidence"), wall, len(new), listed)
        if not quiet:
            print("\n".join(out))
        return 1 if new else 0

    def _write_evidence(self, edir: Path, wall: float, nviol: int, listed):
        edir.mkdir(parents=True, exist_ok=True)
        distinct = {(o["rule"], o["function"], o["obligation"]) for o in self.obligations}
        samples = []
        per_rule_seen = {}
        for o in self.obligations:
            if per_rule_seen.get(o["rule"], 0) < 2:
                per_rule_seen[o["rule"]] = per_rule_seen.get(o["rule"], 0) + 1
                samples.append(o)
        ev = {
            "property_id": self.pid,
            "tier": self.tier,
            "seed": int(os.environ.get("VERIF_SEED", "0") or 0),
            "level": "other",
            "coverage": {
                "explanation": self.explanation,
                "not_decided": self.not_decided,
                "obligations": len(self.obligations),
                "discharged": sum(1 for o in self.obligations if o["discharged"]),
                "evaluations": len(self.obligations),
                "distinct_nontrivial": len(distinct),
                "rule": "one evaluation = one static obligation (rule instance at a code site) checked on /repo's current sources; "
                "distinct = distinct (rule, function, obligation text) triples; every obligation is non-trivial in that a rule-specific "
                "instance floor makes the check fail closed (exit 2) when a rule matches fewer sites than confirmed by hand",
                "samples": samples[:40],
                "rules": self.rule_counts,
                "functions_under_rules": sorted(self.analysed_functions),
                "package": self.program_stats,
                "exhaustive": True,
                "known_findings_echoed": sorted({f.key for f in listed}),
                "checker_cmd": f"./check {self.pid} --tier {self.tier}",
                "trusted_base": ["CPython ast", "mdsa engine (loader, CFG, resolver)", "models of externals listed under assumptions"],
                **self.extra_coverage,
            },
            "assumptions": self.assumptions,
            "wall_s": round(wall, 3),
            "violations": nviol,
        }
        (edir / f"{self.pid}.json").write_text(json.dumps(ev, indent=1, default=str))


def _load_known() -> dict:
    try:
        return json.loads(KNOWN_FILE.read_text())
    except FileNotFoundError:
        return {"known": [], "fixed": []}
