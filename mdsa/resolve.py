"""Callee resolution and call graph over the repo (no type checker available: resolution is
by syntactic receiver shape + class table; unknown receivers are reported as unresolved)."""
from __future__ import annotations

import ast
from typing import Dict, List, Optional, Set, Tuple

from .cfg import walk_local
from .loader import ClassInfo, FuncInfo, Program, dotted


def enclosing_class(P: Program, fi: FuncInfo) -> Optional[ClassInfo]:
    f = fi
    while f is not None:
        if f.cls is not None:
            return f.cls
        f = f.parent
    return None


def _first_param(fi: FuncInfo) -> Optional[str]:
    f = fi
    while f.parent is not None and f.cls is None:
        f = f.parent
    a = f.node.args
    params = a.posonlyargs + a.args
    return params[0].arg if params else None


def resolve_call(P: Program, fi: FuncInfo, call: ast.Call, overrides: bool = True, local_types: Optional[Dict[str, str]] = None) -> List[FuncInfo]:
    """Repo functions a call may invoke. Constructors resolve to __init__ (and __new__) of the class.
    local_types maps local variable names to repo class quals (rule-supplied receiver typing)."""
    local_types = local_types or {}
    f = call.func
    m = fi.module
    out: List[FuncInfo] = []

    def add_class_ctor(cq: str):
        for meth in ("__init__", "__new__"):
            hit = P.lookup_method(cq, meth)
            if hit and isinstance(hit[1], FuncInfo):
                out.append(hit[1])

    def add_method(cq: str, name: str, after=None):
        hit = P.lookup_method(cq, name, after=after)
        if hit and isinstance(hit[1], FuncInfo):
            out.append(hit[1])
        if overrides and after is None:
            for sq in P.subclasses(cq):
                sc = P.classes[sq]
                if name in sc.methods:
                    out.append(sc.methods[name])

    if isinstance(f, ast.Name):
        g = fi
        while g is not None:
            if f.id in g.nested:
                return [g.nested[f.id]]
            g = g.parent
        ref = P.resolve_name(m, f.id)
        if ref and ref.startswith("repo:"):
            q = ref[5:]
            if q in P.functions:
                out.append(P.functions[q])
            elif q in P.classes:
                add_class_ctor(q)
        return _uniq(out)

    if isinstance(f, ast.Attribute):
        recv = f.value
        cls = enclosing_class(P, fi)
        selfname = _first_param(fi)
        # self.m() / cls.m()
        if isinstance(recv, ast.Name) and recv.id in local_types:
            add_method(local_types[recv.id], f.attr)
            return _uniq(out)
        if isinstance(recv, ast.Name) and cls is not None and recv.id in ("self", "cls") and recv.id == selfname:
            add_method(cls.qual, f.attr)
            return _uniq(out)
        # super().m()
        if isinstance(recv, ast.Call) and isinstance(recv.func, ast.Name) and recv.func.id == "super" and cls is not None:
            add_method(cls.qual, f.attr, after=cls.qual)
            return _uniq(out)
        # type(self).m()
        if (
            isinstance(recv, ast.Call)
            and isinstance(recv.func, ast.Name)
            and recv.func.id == "type"
            and cls is not None
            and len(recv.args) == 1
            and isinstance(recv.args[0], ast.Name)
            and recv.args[0].id == selfname
        ):
            add_method(cls.qual, f.attr)
            return _uniq(out)
        d = dotted(f)
        if d:
            ref = P.resolve_name(m, d)
            if ref and ref.startswith("repo:"):
                q = ref[5:]
                if q in P.functions:
                    return [P.functions[q]]
                if q in P.classes:
                    add_class_ctor(q)
                    return _uniq(out)
            # ClassName.method
            rd = dotted(recv)
            if rd:
                rref = P.resolve_name(m, rd)
                if rref and rref.startswith("repo:") and rref[5:] in P.classes:
                    add_method(rref[5:], f.attr)
                    return _uniq(out)
        return _uniq(out)

    # type(self)(...)
    if (
        isinstance(f, ast.Call)
        and isinstance(f.func, ast.Name)
        and f.func.id == "type"
        and len(f.args) == 1
    ):
        cls = enclosing_class(P, fi)
        if cls is not None and isinstance(f.args[0], ast.Name) and f.args[0].id == _first_param(fi):
            for cq in [cls.qual] + P.subclasses(cls.qual):
                add_class_ctor(cq)
    return _uniq(out)


def _uniq(xs: List[FuncInfo]) -> List[FuncInfo]:
    seen, out = set(), []
    for x in xs:
        if x.qual not in seen:
            seen.add(x.qual)
            out.append(x)
    return out


def methods_named(P: Program, name: str) -> List[FuncInfo]:
    return [c.methods[name] for c in P.classes.values() if name in c.methods]


class CallGraph:
    """Whole-package call graph.  edges[caller] = {callee}; sites[(caller, callee)] = [ast.Call].
    `by_name=True` additionally links attribute calls on unknown receivers to every repo method of
    that name (over-approximation, used only by who-may-reach rules)."""

    def __init__(self, P: Program, by_name: bool = False):
        self.P = P
        self.edges: Dict[str, Set[str]] = {}
        self.sites: Dict[Tuple[str, str], List[ast.Call]] = {}
        self.unresolved: Dict[str, List[ast.Call]] = {}
        self.total_calls = 0
        self.resolved_calls = 0
        for fi in P.functions.values():
            self.edges.setdefault(fi.qual, set())
            for call in (x for x in walk_local(fi.node) if isinstance(x, ast.Call)):
                self.total_calls += 1
                callees = resolve_call(P, fi, call)
                if not callees and by_name and isinstance(call.func, ast.Attribute):
                    callees = methods_named(P, call.func.attr)
                if callees:
                    self.resolved_calls += 1
                else:
                    self.unresolved.setdefault(fi.qual, []).append(call)
                for c in callees:
                    self.edges[fi.qual].add(c.qual)
                    self.sites.setdefault((fi.qual, c.qual), []).append(call)
            # a nested function is considered invoked by its definer (callbacks)
            for nf in fi.nested.values():
                self.edges[fi.qual].add(nf.qual)

    def callers(self, qual: str) -> List[str]:
        return sorted(a for a, bs in self.edges.items() if qual in bs)

    def reachable_from(self, roots) -> Set[str]:
        seen, todo = set(roots), list(roots)
        while todo:
            a = todo.pop()
            for b in self.edges.get(a, ()):
                if b not in seen:
                    seen.add(b)
                    todo.append(b)
        return seen

    def can_reach(self, targets) -> Set[str]:
        """All functions from which some target is reachable (including the targets)."""
        targets = set(targets)
        rev: Dict[str, Set[str]] = {}
        for a, bs in self.edges.items():
            for b in bs:
                rev.setdefault(b, set()).add(a)
        seen, todo = set(targets), list(targets)
        while todo:
            b = todo.pop()
            for a in rev.get(b, ()):
                if a not in seen:
                    seen.add(a)
                    todo.append(a)
        return seen
